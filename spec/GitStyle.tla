------------------------------- MODULE GitStyle -------------------------------
(***************************************************************************)
(* git's colour/attribute syntax (git-config(1), "color" values) as parsed  *)
(* by anstyle-git (C11).  Input and words are sequences of Unicode code     *)
(* points.                                                                  *)
(*   description ::= word (whitespace+ word)*   (leading/trailing ws ok)    *)
(*   word ::= colour | attribute                                            *)
(*   colour ::= normal | -1 | black..white | 0..255 | #rgb | #rrggbb         *)
(*   attribute ::= [no | no-] (bold|dim|ul|blink|reverse|italic|strike)      *)
(* keywords in any letter case (ASCII case folding).  First colour is the   *)
(* foreground, second the background, a third is an error naming that word; *)
(* any other word is an error naming it (original spelling).  Attributes    *)
(* form a set, a later negation wins.  #rgb denotes the per-digit values    *)
(* (as the crate's pinned tests define).                                    *)
(***************************************************************************)
EXTENDS Naturals, Sequences, FiniteSets

None == <<"none">>
\* Unicode White_Space (what "any whitespace" means for a Rust/Unicode string)
IsWs(c) == c \in {9, 10, 11, 12, 13, 32, 133, 160, 5760, 8232, 8233, 8239, 8287, 12288} \/ (c >= 8192 /\ c <= 8202)
IsDigit(c) == c >= 48 /\ c <= 57
IsHex(c) == IsDigit(c) \/ (c >= 65 /\ c <= 70) \/ (c >= 97 /\ c <= 102)
HexVal(c) == IF IsDigit(c) THEN c - 48 ELSE IF c >= 97 THEN c - 87 ELSE c - 55
Lower(c) == IF c >= 65 /\ c <= 90 THEN c + 32 ELSE c
LowerW(w) == [i \in 1..Len(w) |-> Lower(w[i])]

\* split into words
RECURSIVE Words(_, _, _)
Words(s, cur, acc) ==
  IF s = <<>> THEN (IF cur = <<>> THEN acc ELSE Append(acc, cur))
  ELSE IF IsWs(Head(s)) THEN Words(Tail(s), <<>>, IF cur = <<>> THEN acc ELSE Append(acc, cur))
  ELSE Words(Tail(s), Append(cur, Head(s)), acc)

AttrNames == <<<<<<98, 111, 108, 100>>, "BOLD">>, <<<<100, 105, 109>>, "DIMMED">>, <<<<117, 108>>, "UNDERLINE">>, <<<<98, 108, 105, 110, 107>>, "BLINK">>, <<<<114, 101, 118, 101, 114, 115, 101>>, "INVERT">>, <<<<105, 116, 97, 108, 105, 99>>, "ITALIC">>, <<<<115, 116, 114, 105, 107, 101>>, "STRIKETHROUGH">>>>
ColourNames == <<<<98, 108, 97, 99, 107>>, <<114, 101, 100>>, <<103, 114, 101, 101, 110>>, <<121, 101, 108, 108, 111, 119>>, <<98, 108, 117, 101>>, <<109, 97, 103, 101, 110, 116, 97>>, <<99, 121, 97, 110>>, <<119, 104, 105, 116, 101>>>>
KwNormal == <<110, 111, 114, 109, 97, 108>>
KwMinus1 == <<45, 49>>
PrefNo == <<110, 111>>
PrefNoDash == <<110, 111, 45>>

StartsWith(w, p) == Len(w) >= Len(p) /\ SubSeq(w, 1, Len(p)) = p
Drop(w, n) == SubSeq(w, n + 1, Len(w))

\* attribute word (lower-cased): <<TRUE, effect, negated>> or <<FALSE>>
AttrOf(w) ==
  LET plain == {k \in 1..Len(AttrNames) : AttrNames[k][1] = w}
      nod   == {k \in 1..Len(AttrNames) : StartsWith(w, PrefNoDash) /\ AttrNames[k][1] = Drop(w, 3)}
      no    == {k \in 1..Len(AttrNames) : StartsWith(w, PrefNo) /\ AttrNames[k][1] = Drop(w, 2)}
  IN IF plain # {} THEN <<TRUE, AttrNames[CHOOSE k \in plain : TRUE][2], FALSE>>
     ELSE IF nod # {} THEN <<TRUE, AttrNames[CHOOSE k \in nod : TRUE][2], TRUE>>
     ELSE IF no # {} THEN <<TRUE, AttrNames[CHOOSE k \in no : TRUE][2], TRUE>>
     ELSE <<FALSE>>

RECURSIVE NumVal(_, _)
NumVal(w, acc) == IF w = <<>> THEN acc ELSE IF acc > 255 THEN 256 ELSE NumVal(Tail(w), acc * 10 + (Head(w) - 48))

\* colour word (lower-cased): <<TRUE, colour>> or <<FALSE>>
ColourOf(w) ==
  IF w = KwNormal \/ w = KwMinus1 THEN <<TRUE, None>>
  ELSE LET nm == {k \in 1..8 : ColourNames[k] = w} IN
  IF nm # {} THEN <<TRUE, <<"ansi", (CHOOSE k \in nm : TRUE) - 1>>>>
  ELSE IF w # <<>> /\ \A i \in 1..Len(w) : IsDigit(w[i]) THEN
       (IF NumVal(w, 0) <= 255 THEN <<TRUE, <<"idx", NumVal(w, 0)>>>> ELSE <<FALSE>>)
  ELSE IF w # <<>> /\ w[1] = 35 /\ Len(w) \in {4, 7} /\ \A i \in 2..Len(w) : IsHex(w[i]) THEN
       (IF Len(w) = 4 THEN <<TRUE, <<"rgb", HexVal(w[2]), HexVal(w[3]), HexVal(w[4])>>>>
        ELSE <<TRUE, <<"rgb", HexVal(w[2]) * 16 + HexVal(w[3]), HexVal(w[4]) * 16 + HexVal(w[5]), HexVal(w[6]) * 16 + HexVal(w[7])>>>>)
  ELSE <<FALSE>>

\* word machine; state [fg, bg, n, eff]; result <<"ok", style>> | <<"extra", word>> | <<"unknown", word>>
RECURSIVE Run(_, _)
Run(st, ws) ==
  IF ws = <<>> THEN <<"ok", [fg |-> st.fg, bg |-> st.bg, eff |-> st.eff]>>
  ELSE LET word == Head(ws)
           w == LowerW(word)
           a == AttrOf(w)
           c == ColourOf(w)
       IN IF a[1] THEN Run([st EXCEPT !.eff = IF a[3] THEN @ \ {a[2]} ELSE @ \cup {a[2]}], Tail(ws))
          ELSE IF c[1] THEN
               (IF st.n = 0 THEN Run([st EXCEPT !.fg = c[2], !.n = 1], Tail(ws))
                ELSE IF st.n = 1 THEN Run([st EXCEPT !.bg = c[2], !.n = 2], Tail(ws))
                ELSE <<"extra", word>>)
          ELSE <<"unknown", word>>

Parse(s) == Run([fg |-> None, bg |-> None, n |-> 0, eff |-> {}], Words(s, <<>>, <<>>))

\* inputs the statement is silent about: a non-ASCII character whose Unicode lower-casing IS an ASCII letter
\* (U+212A KELVIN SIGN -> k).  U+0130 (capital I with dot) is inside the domain: its lower-casing is i + U+0307, which is not
\* a keyword letter under any reading, so a word containing it is unknown.
InDomain(s) == \A i \in 1..Len(s) : s[i] \notin {8490}

(***************************************************************************)
(* Printing an expressible style in this syntax (round trip).               *)
(***************************************************************************)
RECURSIVE Digits(_)
Digits(n) == IF n < 10 THEN <<48 + n>> ELSE Digits(n \div 10) \o <<48 + (n % 10)>>
HexDigit(v) == IF v < 10 THEN 48 + v ELSE 87 + v
PrintColour(c) ==
  IF c = None THEN KwNormal
  ELSE IF c[1] = "ansi" THEN ColourNames[c[2] + 1]
  ELSE IF c[1] = "idx" THEN Digits(c[2])
  ELSE <<35, HexDigit(c[2] \div 16), HexDigit(c[2] % 16), HexDigit(c[3] \div 16), HexDigit(c[3] % 16), HexDigit(c[4] \div 16), HexDigit(c[4] % 16)>>
Print(st) ==
  LET cols == IF st.bg # None THEN PrintColour(st.fg) \o <<32>> \o PrintColour(st.bg)
              ELSE IF st.fg # None THEN PrintColour(st.fg) ELSE <<>>
      RECURSIVE A(_)
      A(k) == IF k > Len(AttrNames) THEN <<>>
              ELSE (IF AttrNames[k][2] \in st.eff THEN <<32>> \o AttrNames[k][1] ELSE <<>>) \o A(k + 1)
  IN cols \o A(1)
=============================================================================
