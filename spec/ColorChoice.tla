------------------------------ MODULE ColorChoice ------------------------------
(***************************************************************************)
(* Colour auto-detection (anstream::AutoStream::choice, anstyle-query,      *)
(* colorchoice, colorchoice-clap) - C09.                                    *)
(*                                                                         *)
(* A configuration is                                                       *)
(*   global  the process-wide choice                                        *)
(*   env     a function Var -> value, where the value "unset" stands for    *)
(*           an absent variable (the empty string is a present, empty one)  *)
(*   term    whether the stream is a terminal                               *)
(* The probes follow the published conventions (no-color.org,               *)
(* bixense.com/clicolors, TERM, COLORTERM, CI); Query is the documented     *)
(* precedence chain, word for word.                                         *)
(***************************************************************************)
EXTENDS Naturals, Sequences

Unset == "unset"
Present(v)  == v # Unset
NonEmpty(v) == Present(v) /\ v # ""

NoColor(env)       == NonEmpty(env.NO_COLOR)                 \* no-color.org: present and not empty
ClicolorForce(env) == NonEmpty(env.CLICOLOR_FORCE)
\* CLICOLOR: "none" when absent, else whether it is anything other than "0"
Clicolor(env)      == IF ~Present(env.CLICOLOR) THEN "none" ELSE IF env.CLICOLOR = "0" THEN "false" ELSE "true"
TermSupportsColor(env) == Present(env.TERM) /\ env.TERM # "dumb"     \* non-Windows
IsCi(env)          == Present(env.CI)
TrueColor(v)       == v \in {"truecolor", "24bit"}            \* COLORTERM

Query(global, env, term) ==
  IF global # "Auto" THEN global                                          \* an explicit global choice wins
  ELSE IF NoColor(env) THEN "Never"                                       \* otherwise NO_COLOR disables
  ELSE IF ClicolorForce(env) THEN "Always"                                \* otherwise CLICOLOR_FORCE enables
  ELSE IF Clicolor(env) = "false" THEN "Never"                            \* otherwise CLICOLOR=0 disables
  ELSE IF term /\ (TermSupportsColor(env) \/ Clicolor(env) = "true" \/ IsCi(env)) THEN "Always"
  ELSE "Never"

\* the command-line flag maps one-to-one onto the global choice
ClapFlag(arg) == CASE arg = "auto" -> "Auto" [] arg = "always" -> "Always" [] arg = "never" -> "Never"
=============================================================================
