-------------------------------- MODULE Strip --------------------------------
(***************************************************************************)
(* Stripping escape sequences (anstream::adapter::strip, StripStream).      *)
(*                                                                         *)
(* Three layers:                                                            *)
(*  1. REFERENCE  RefStep: the visibility of every input byte according to  *)
(*     the parser model (VtTable + Utf8; MC_StripRef checks that it is the  *)
(*     projection of VtParser!Step).  Labels:                               *)
(*       "P"     byte of a character the model prints (DEL excepted)        *)
(*       "W"     TAB/LF/FF/CR executed by the model - in whatever state     *)
(*       "X"     everything else (sequence bytes, other controls, DEL, ...) *)
(*       "pend"  lead/continuation of a multi-byte character not yet        *)
(*               complete; resolved by a later                              *)
(*       "Pdone" (character complete: all its bytes are P) or               *)
(*       "Mdone" (malformed: the model prints U+FFFD for these bytes and    *)
(*               has consumed the offending byte)                           *)
(*  2. JUDGE  what an output may contain: P/W kept, X dropped, bytes of a   *)
(*     malformed character optional - except that ESC, DEL and non-         *)
(*     whitespace C0 controls are never allowed in the output.              *)
(*  3. SCANNER  the implementation-shaped two-phase scanners (skip phase    *)
(*     stepping the table, run phase taking the maximal printable run) of   *)
(*     next_bytes / next_str, with named deviations:                        *)
(*       D_RunGroundRow  run phase looks bytes up in the Ground row while   *)
(*                       the state is inside a sequence                     *)
(*       D_StrReset      text scanner forgets its state after every call    *)
(*       D_Utf8CtlLeak   offending byte of a malformed character is kept    *)
(*                       even when it is ESC/DEL/C0                          *)
(***************************************************************************)
EXTENDS VtTable, Utf8, Sequences

CONSTANTS D_RunGroundRow, D_StrReset, D_Utf8CtlLeak,   \* scanner deviations (design layer)
          AcceptCtlLeak    \* judge: tolerate known finding F3 (a forbidden offending byte kept)

IsWsCtl(b)   == b \in {9, 10, 12, 13}
Forbidden(b) == (b < 32 /\ ~IsWsCtl(b)) \/ b = 127
NoCp(u)      == [u EXCEPT !.cp = 0]

\* ---------------------------------------------------------------- 1. reference
RInit == [st |-> "Ground", u8 |-> U8Idle]

RefStep(r, b) ==
  IF r.st = "Utf8" THEN
     LET c == U8Cont(r.u8, b) IN
     IF c[2] = "more" THEN <<[r EXCEPT !.u8 = NoCp(c[1])], "pend">>
     ELSE IF c[2] = "char" THEN <<RInit, "Pdone">>
     ELSE <<RInit, "Mdone">>
  ELSE LET arc == Arc(r.st, b) IN
     IF arc[2] = "BeginUtf8" THEN <<[st |-> "Utf8", u8 |-> NoCp(U8Begin(b))], "pend">>
     ELSE LET r2 == IF arc[1] = "-" THEN r ELSE [r EXCEPT !.st = arc[1]] IN
          IF arc[2] = "Print" /\ b # 127 THEN <<r2, "P">>
          ELSE IF arc[2] = "Execute" /\ IsWsCtl(b) THEN <<r2, "W">>
          ELSE <<r2, "X">>

\* ---------------------------------------------------------------- 2. judge
\* judge state: reference state + kept-flags of the bytes of an unfinished character
JInit == [r |-> RInit, pk |-> <<>>]

\* Judge(j, b, kept) = <<j', ok>>: is keeping/dropping byte b acceptable?
Judge(j, b, kept) ==
  LET rr  == RefStep(j.r, b)
      lab == rr[2]
      ok  == CASE lab \in {"P", "W"} -> kept
               [] lab = "X"     -> ~kept
               [] lab = "pend"  -> TRUE
               [] lab = "Pdone" -> kept /\ \A k \in 1..Len(j.pk) : j.pk[k]
               [] lab = "Mdone" -> ~(kept /\ Forbidden(b)) \/ AcceptCtlLeak
      pk2 == IF lab = "pend" THEN Append(j.pk, kept) ELSE <<>>
  IN <<[r |-> rr[1], pk |-> pk2], ok>>

\* label of the deviation that would excuse a rejected step (for reporting)
JudgeLeak(j, b, kept) == RefStep(j.r, b)[2] = "Mdone" /\ kept /\ Forbidden(b)

\* Judging a whole chunk given the kept flag of every byte: <<j', index of first bad byte or 0>>
RECURSIVE JudgeRun(_, _, _, _)
JudgeRun(j, bs, kf, k) ==
  IF k > Len(bs) THEN <<j, 0>>
  ELSE LET s == Judge(j, bs[k], kf[k]) IN
       IF s[2] THEN JudgeRun(s[1], bs, kf, k + 1) ELSE <<s[1], k>>

(* Requirement vector of a complete input (one-shot view), one letter per byte:        *)
(*   "K" must be kept, "D" must be dropped, "O" optional (byte of a malformed character),  *)
(*   "F" a forbidden control swallowed by a malformed character: must be dropped          *)
(*       (an implementation keeping it exhibits known finding F3).                         *)
RECURSIVE Req(_, _, _, _)
Req(r, bs, acc, npend) ==        \* npend = number of trailing "pend" entries in acc
  IF bs = <<>> THEN [k \in 1..Len(acc) |-> IF k > Len(acc) - npend THEN "O" ELSE acc[k]]
  ELSE LET b   == Head(bs)
           rr  == RefStep(r, b)
           lab == rr[2]
           n   == Len(acc)
           fix(c) == [k \in 1..n |-> IF k > n - npend THEN c ELSE acc[k]]
       IN CASE lab \in {"P", "W"} -> Req(rr[1], Tail(bs), Append(acc, "K"), 0)
            [] lab = "X"     -> Req(rr[1], Tail(bs), Append(acc, "D"), 0)
            [] lab = "pend"  -> Req(rr[1], Tail(bs), Append(acc, "?"), npend + 1)
            [] lab = "Pdone" -> Req(rr[1], Tail(bs), Append(fix("K"), "K"), 0)
            [] lab = "Mdone" -> Req(rr[1], Tail(bs), Append(fix("O"), IF Forbidden(b) THEN "F" ELSE "O"), 0)
Requirement(bs) == Req(RInit, bs, <<>>, 0)

\* pieces are <<offset, length>> (0-based offset) into a chunk of length n:
\* in order, non-empty, non-overlapping, inside the chunk
PiecesGeomOk(pcs, n) ==
  /\ \A k \in 1..Len(pcs) : pcs[k][2] >= 1 /\ pcs[k][1] >= 0 /\ pcs[k][1] + pcs[k][2] <= n
  /\ \A k \in 1..(Len(pcs) - 1) : pcs[k][1] + pcs[k][2] <= pcs[k + 1][1]
KeptFlags(pcs, n) == [i \in 1..n |-> \E k \in 1..Len(pcs) : i - 1 >= pcs[k][1] /\ i - 1 < pcs[k][1] + pcs[k][2]]

\* a text piece must start on a character boundary and end before one (C04: from_utf8_unchecked)
StartsChar(b) == b < 128 \/ U8IsLead(b)

\* ---------------------------------------------------------------- 3. scanners
Printable(a, b) == (a = "Print" /\ b # 127) \/ a = "BeginUtf8" \/ (a = "Execute" /\ (IsWsCtl(b) \/ b = 32))
Delta(s, b) == LET arc == Arc(s, b) IN <<IF arc[1] = "-" THEN s ELSE arc[1], arc[2]>>

\* utf8parse as driven by the byte scanner: <<u', done, invalid>>
UAdd(u, b) ==
  IF u.need = 0 THEN
     IF U8IsLead(b) THEN <<NoCp(U8Begin(b)), FALSE, FALSE>>
     ELSE <<u, TRUE, b >= 128>>
  ELSE LET c == U8Cont(u, b) IN
       IF c[2] = "more" THEN <<NoCp(c[1]), FALSE, FALSE>>
       ELSE IF c[2] = "char" THEN <<U8Idle, TRUE, FALSE>>
       ELSE <<U8Idle, TRUE, TRUE>>

\* byte scanner (next_bytes): state [st, u8, mode]
SBInit == [st |-> "Ground", u8 |-> U8Idle, mode |-> "skip"]

RECURSIVE ScanBytes(_, _)
ScanBytes(i, b) ==            \* <<i', kept>>
  IF i.mode = "skip" THEN
     IF i.st = "Utf8" THEN ScanBytes([i EXCEPT !.mode = "run"], b)
     ELSE LET d  == Delta(i.st, b)
              i2 == [i EXCEPT !.st = d[1]]
          IN IF Printable(d[2], b) THEN ScanBytes([i2 EXCEPT !.mode = "run"], b)
             ELSE <<i2, FALSE>>
  ELSE
     IF i.st = "Utf8" THEN
        LET u  == UAdd(i.u8, b)
            i2 == [i EXCEPT !.u8 = u[1], !.st = IF u[2] THEN "Ground" ELSE "Utf8"]
        IN IF ~D_Utf8CtlLeak /\ u[3] /\ Forbidden(b) THEN <<[i2 EXCEPT !.mode = "skip"], FALSE>>
           ELSE <<i2, TRUE>>
     ELSE IF D_RunGroundRow THEN
        LET d  == Delta("Ground", b)
            i2 == IF Arc("Ground", b)[1] # "-" THEN [i EXCEPT !.st = d[1]] ELSE i
        IN IF i2.st = "Utf8" THEN <<[i2 EXCEPT !.u8 = UAdd(i2.u8, b)[1]], TRUE>>
           ELSE IF Printable(d[2], b) THEN <<i2, TRUE>>
           ELSE ScanBytes([i2 EXCEPT !.mode = "skip"], b)
     ELSE
        LET d == Delta(i.st, b) IN
        IF Printable(d[2], b) THEN
           LET i2 == [i EXCEPT !.st = d[1]] IN
           IF i2.st = "Utf8" THEN <<[i2 EXCEPT !.u8 = UAdd(i2.u8, b)[1]], TRUE>> ELSE <<i2, TRUE>>
        ELSE ScanBytes([i EXCEPT !.mode = "skip"], b)

SBEndChunk(i) == [i EXCEPT !.mode = "skip"]

\* text scanner (next_str): state [st, mode]; input is valid UTF-8
SSInit == [st |-> "Ground", mode |-> "skip"]

RECURSIVE ScanStr(_, _)
ScanStr(i, b) ==
  IF i.mode = "skip" THEN
     LET d  == Delta(i.st, b)
         i2 == [i EXCEPT !.st = d[1]]
     IN IF Printable(d[2], b)
        THEN ScanStr([i2 EXCEPT !.mode = "run",
                                !.st = IF D_StrReset \/ i2.st = "Utf8" THEN "Ground" ELSE i2.st], b)
        ELSE <<i2, FALSE>>
  ELSE
     LET d == Delta(IF D_RunGroundRow THEN "Ground" ELSE i.st, b) IN
     IF Printable(d[2], b) \/ U8IsCont(b) THEN <<i, TRUE>>
     ELSE ScanStr([i EXCEPT !.mode = "skip"], b)

SSEndChunk(i) == [i EXCEPT !.mode = "skip", !.st = IF D_StrReset THEN "Ground" ELSE i.st]

\* fold a scanner over a chunk: <<i', kept flags>>
RECURSIVE FoldBytes(_, _)
FoldBytes(i, bs) == IF bs = <<>> THEN <<i, <<>>>>
                    ELSE LET s == ScanBytes(i, Head(bs))
                             t == FoldBytes(s[1], Tail(bs))
                         IN <<t[1], <<s[2]>> \o t[2]>>
=============================================================================
