----------------------------- MODULE WinconStream -----------------------------
(***************************************************************************)
(* The legacy-console stream (crates/anstream/src/wincon.rs, C18): escape   *)
(* codes are translated into console colour calls.  One observed call:      *)
(*   op      "write" | "write_all" | "write_fmt"                            *)
(*   buf     bytes submitted                                                *)
(*   console the console writes it made:                                    *)
(*           <<fg 0..16, bg 0..16, data bytes, result, accepted>>           *)
(*           (16 = default colour; result "ok" | "eI" | "eO")               *)
(*   ret     <<"ok", n>> | <<kind, 0>>                                      *)
(* Specification: run buf through WinconExtract (parser + lenient SGR,      *)
(* state carried across calls); the bytes the console ACCEPTED, each tagged *)
(* with the colours of its call, must be exactly the UTF-8 text of the      *)
(* visible characters, in order, each once, tagged Cap16(fg), Cap16(bg) of  *)
(* a rendition consistent with everything observed so far.  A buffer is     *)
(* reported consumed only if all its text was handed over; console errors   *)
(* reach the caller (write_all retries Interrupted and treats Ok(0) as      *)
(* WriteZero, like std).                                                    *)
(*  AcceptShortWriteAbandon  tolerance for finding F13 (the HACK in write:  *)
(*  after a short console write the rest is abandoned, Ok(len) returned).   *)
(***************************************************************************)
EXTENDS WinconExtract, Utf8
CONSTANT AcceptShortWriteAbandon

Cap16(c) == IF c = None THEN 16
            ELSE IF c[1] = "ansi" THEN c[2]
            ELSE IF c[1] = "idx" /\ c[2] < 16 THEN c[2]
            ELSE 16
CapPair(g) == <<Cap16(g.fg), Cap16(g.bg)>>

\* accepted bytes of the console calls, each with the colour pair of its call
RECURSIVE FlatConsole(_)
FlatConsole(cs) ==
  IF cs = <<>> THEN <<>>
  ELSE LET c == Head(cs) IN [i \in 1..c[5] |-> <<<<c[1], c[2]>>, c[3][i]>>] \o FlatConsole(Tail(cs))

\* unknown base rendition (after an "odd" list): a slot that every candidate agrees on was set since, and is owed
CapKnownOk(S, pair) ==
  LET c == CHOOSE c \in S : TRUE IN
  /\ ((\A a \in S : a.fg = c.fg) => pair[1] = Cap16(c.fg))
  /\ ((\A a \in S : a.bg = c.bg) => pair[2] = Cap16(c.bg))

\* match the bytes of one visible character
RECURSIVE MatchBytes(_, _, _, _)
MatchBytes(x, bs, obs, k) ==        \* <<x', k', ok>>
  IF bs = <<>> THEN <<x, k, TRUE>>
  ELSE IF k > Len(obs) THEN <<x, k, FALSE>>
  ELSE IF obs[k][2] # Head(bs) THEN <<x, k, FALSE>>
  ELSE IF x.wild THEN (IF CapKnownOk(x.S, obs[k][1]) THEN MatchBytes(x, Tail(bs), obs, k + 1) ELSE <<x, k, FALSE>>)
  ELSE LET S2 == {g \in x.S : CapPair(g) = obs[k][1]} IN
       IF S2 = {} THEN <<x, k, FALSE>> ELSE MatchBytes([x EXCEPT !.S = S2], Tail(bs), obs, k + 1)

(* Walk the call's bytes.  obs may run out (short console writes): `stop` records the first      *)
(* visible byte position that was not handed over; parsing continues so that the carried state is *)
(* the state after the whole buffer.  Returns <<x', k', ok, complete>>.                            *)
RECURSIVE WalkEvC(_, _, _, _, _)
WalkEvC(x, evs, obs, k, complete) ==
  IF evs = <<>> THEN <<x, k, TRUE, complete>>
  ELSE LET e == Head(evs) IN
    IF IsVisible(e) /\ CharOf(e) # 127 THEN
       IF ~complete THEN WalkEvC(x, Tail(evs), obs, k, FALSE)
       ELSE LET bs == IF e.k = "print" THEN U8Encode(e.c) ELSE <<e.b>>
                m  == MatchBytes(x, bs, obs, k)
            IN IF m[3] THEN WalkEvC(m[1], Tail(evs), obs, m[2], TRUE)
               ELSE IF m[2] > Len(obs) THEN WalkEvC(x, Tail(evs), obs, m[2], FALSE)   \* observations exhausted
               ELSE <<x, k, FALSE, FALSE>>                                             \* wrong byte or colours
    ELSE IF IsSgr(e) THEN WalkEvC(SgrStep(x, e.p), Tail(evs), obs, k, complete)
    ELSE WalkEvC(x, Tail(evs), obs, k, complete)

RECURSIVE WalkC(_, _, _, _, _)
WalkC(x, bytes, obs, k, complete) ==
  IF bytes = <<>> THEN <<x, k, TRUE, complete>>
  ELSE LET r == VP!Step(x.ps, Head(bytes))
           w == WalkEvC([x EXCEPT !.ps = r[1]], r[2], obs, k, complete)
       IN IF w[3] THEN WalkC(w[1], Tail(bytes), obs, w[2], w[4]) ELSE w

DropDel(obs) == SelectSeq(obs, LAMBDA o : o[2] # 127)
HasErrC(cs, kind) == \E k \in 1..Len(cs) : cs[k][4] = kind
HasZeroC(cs) == \E k \in 1..Len(cs) : cs[k][4] = "ok" /\ cs[k][5] = 0 /\ Len(cs[k][3]) > 0
LastShort(cs) == cs # <<>> /\ cs[Len(cs)][4] = "ok" /\ cs[Len(cs)][5] < Len(cs[Len(cs)][3])

\* ConsoleCallOk(x, e) = <<ok, x'>>   (the property as stated; no tolerance)
ConsoleCallOk(x, e) ==
  LET obs  == DropDel(FlatConsole(e.console))
      kind == e.ret[1]
      w    == WalkC(x, e.buf, obs, 1, TRUE)
      allHandedOver == w[3] /\ w[4] /\ w[2] = Len(obs) + 1
      prefixOnly    == w[3] /\ w[2] = Len(obs) + 1          \* everything observed is right, but text is missing
  IN IF kind = "ok" THEN
        IF e.op = "write" THEN
           <<e.ret[2] = Len(e.buf) /\ ~HasErrC(e.console, "eI") /\ ~HasErrC(e.console, "eO") /\ allHandedOver, w[1]>>
        ELSE <<~HasErrC(e.console, "eO") /\ ~HasZeroC(e.console) /\ allHandedOver, w[1]>>
     ELSE <<prefixOnly /\ ((kind \in {"eI", "eO"} /\ HasErrC(e.console, kind)) \/ (kind = "eZ" /\ HasZeroC(e.console))
                      \/ (kind = "eF" /\ ~HasErrC(e.console, "eI") /\ ~HasErrC(e.console, "eO") /\ ~HasZeroC(e.console))), w[1]>>

(***************************************************************************)
(* Finding F13 exactly as the code does it (tolerance, only while the       *)
(* finding is open): in `write`, when the console accepts less than the run *)
(* it was offered, the loop over the lazy extractor is left: the REST OF    *)
(* THE BUFFER IS NEITHER HANDED OVER NOR PARSED, and Ok(len) is returned.   *)
(* The extractor had stopped right after the SGR that ended the offered run *)
(* (or at the end of the buffer), so the carried state is the state at that *)
(* cut.  The offered data of every console call is in the record, so the    *)
(* cut is one of: an SGR dispatch after the last offered character and      *)
(* before the next visible one; the end of the buffer if no visible         *)
(* character follows.  (Which SGR "changed the style" is not decided here:  *)
(* every such position is a candidate - the trace specification branches.)  *)
(***************************************************************************)
RECURSIVE FlatOffered(_)
FlatOffered(cs) ==
  IF cs = <<>> THEN <<>>
  ELSE LET c == Head(cs) IN [i \in 1..Len(c[3]) |-> <<<<c[1], c[2]>>, c[3][i]>>] \o FlatOffered(Tail(cs))

\* a = [x, k, ok, past, cuts]
RECURSIVE AbEv(_, _, _)
AbEv(a, evs, obs) ==
  IF evs = <<>> \/ ~a.ok THEN a
  ELSE LET e == Head(evs) IN
    IF IsVisible(e) /\ CharOf(e) # 127 THEN
       IF a.past THEN AbEv(a, Tail(evs), obs)
       ELSE IF a.k > Len(obs) THEN AbEv([a EXCEPT !.past = TRUE], Tail(evs), obs)
       ELSE LET bs == IF e.k = "print" THEN U8Encode(e.c) ELSE <<e.b>>
                m  == MatchBytes(a.x, bs, obs, a.k)
            IN IF m[3] THEN AbEv([a EXCEPT !.x = m[1], !.k = m[2]], Tail(evs), obs)
               ELSE [a EXCEPT !.ok = FALSE]
    ELSE IF IsSgr(e) THEN
       LET x2 == SgrStep(a.x, e.p) IN
       AbEv([a EXCEPT !.x = x2, !.cuts = IF ~a.past /\ a.k = Len(obs) + 1 THEN a.cuts \union {x2} ELSE a.cuts], Tail(evs), obs)
    ELSE AbEv(a, Tail(evs), obs)

RECURSIVE AbWalk(_, _, _)
AbWalk(a, bytes, obs) ==
  IF bytes = <<>> \/ ~a.ok THEN a
  ELSE LET r == VP!Step(a.x.ps, Head(bytes))
       IN AbWalk(AbEv([a EXCEPT !.x.ps = r[1]], r[2], obs), Tail(bytes), obs)

AbandonNext(x, e) ==
  LET obs == DropDel(FlatOffered(e.console))
      n   == Len(e.console)
      a   == AbWalk([x |-> x, k |-> 1, ok |-> TRUE, past |-> FALSE, cuts |-> {}], e.buf, obs)
      good == /\ a.ok /\ a.k = Len(obs) + 1
              /\ e.ret[2] = Len(e.buf) /\ ~HasErrC(e.console, "eI") /\ ~HasErrC(e.console, "eO")
              /\ \A j \in 1..(n - 1) : e.console[j][5] = Len(e.console[j][3])
  IN IF ~good THEN {} ELSE a.cuts \union (IF a.past THEN {} ELSE {a.x})

\* the set of judge states after the call; {} = the call is not allowed
ConsoleNext(x, e) ==
  IF AcceptShortWriteAbandon /\ e.op = "write" /\ e.ret[1] = "ok" /\ LastShort(e.console) THEN AbandonNext(x, e)
  ELSE LET c == ConsoleCallOk(x, e) IN IF c[1] THEN {c[2]} ELSE {}
=============================================================================
