-------------------------------- MODULE Utf8 --------------------------------
(***************************************************************************)
(* UTF-8 decoding as a byte-at-a-time acceptor, from the Unicode Standard   *)
(* Table 3-7 "Well-Formed UTF-8 Byte Sequences".                            *)
(*                                                                         *)
(* Decoder state: [need, cp, lo, hi]                                        *)
(*   need - continuation bytes still expected (0 = idle)                    *)
(*   cp   - scalar value accumulated so far                                 *)
(*   lo,hi- the admissible range of the NEXT continuation byte (this is how *)
(*          Table 3-7 excludes overlong forms, surrogates and > U+10FFFF)   *)
(***************************************************************************)
EXTENDS Naturals

U8Idle == [need |-> 0, cp |-> 0, lo |-> 128, hi |-> 191]

U8IsLead(b) == b >= 194 /\ b <= 244
U8IsCont(b) == b >= 128 /\ b <= 191

\* Begin(b): state after a lead byte b (194..244)
U8Begin(b) ==
  IF b >= 194 /\ b <= 223 THEN [need |-> 1, cp |-> b - 192, lo |-> 128, hi |-> 191]
  ELSE IF b = 224 THEN [need |-> 2, cp |-> 0, lo |-> 160, hi |-> 191]
  ELSE IF (b >= 225 /\ b <= 236) \/ b = 238 \/ b = 239 THEN [need |-> 2, cp |-> b - 224, lo |-> 128, hi |-> 191]
  ELSE IF b = 237 THEN [need |-> 2, cp |-> 13, lo |-> 128, hi |-> 159]
  ELSE IF b = 240 THEN [need |-> 3, cp |-> 0, lo |-> 144, hi |-> 191]
  ELSE IF b >= 241 /\ b <= 243 THEN [need |-> 3, cp |-> b - 240, lo |-> 128, hi |-> 191]
  ELSE [need |-> 3, cp |-> 4, lo |-> 128, hi |-> 143]   \* 244

\* Cont(u, b): <<u', result>> with result in {"more", "char", "invalid"};
\* on "char" u'.cp holds the scalar value.  On "invalid" the offending byte is
\* consumed (this is what utf8parse and hence the crate do; see VtParser).
U8Cont(u, b) ==
  IF b >= u.lo /\ b <= u.hi THEN
     LET c == u.cp * 64 + (b - 128) IN
     IF u.need = 1 THEN <<[U8Idle EXCEPT !.cp = c], "char">>
     ELSE <<[need |-> u.need - 1, cp |-> c, lo |-> 128, hi |-> 191], "more">>
  ELSE <<U8Idle, "invalid">>

\* Encoding, for generators and round-trip checks
U8Len(c) == IF c < 128 THEN 1 ELSE IF c < 2048 THEN 2 ELSE IF c < 65536 THEN 3 ELSE 4
U8Encode(c) ==
  IF c < 128 THEN <<c>>
  ELSE IF c < 2048 THEN <<192 + (c \div 64), 128 + (c % 64)>>
  ELSE IF c < 65536 THEN <<224 + (c \div 4096), 128 + ((c \div 64) % 64), 128 + (c % 64)>>
  ELSE <<240 + (c \div 262144), 128 + ((c \div 4096) % 64), 128 + ((c \div 64) % 64), 128 + (c % 64)>>
IsScalar(c) == (c >= 0 /\ c <= 55295) \/ (c >= 57344 /\ c <= 1114111)
=============================================================================
