--------------------------------- MODULE Roff ---------------------------------
(***************************************************************************)
(* roff rendering of styled text (anstyle-roff, C15).                       *)
(* Domain (the statement's): text made of segments, each introduced by one  *)
(* self-contained SGR sequence - reset followed by any subset of effects    *)
(* and 16-colour foreground/background codes.                               *)
(*  Segments(bytes)   the segments of the input, from the parser            *)
(*                    specification: style = strict SGR reading of the      *)
(*                    introducing sequence from the default rendition,      *)
(*                    text = what is printed until the next sequence;       *)
(*                    segments without text are not visible and dropped     *)
(*  DocOk(segs, doc)  the document, line by line: for every segment         *)
(*                      .gcolor <fg name | default>                         *)
(*                      .fcolor <bg name | default>                         *)
(*                      the text, in \fB..\fR if bold or bright foreground, *)
(*                      else \fI..\fR if italic, else plain, with           *)
(*                      "\" -> "\\", "-" -> "\-", and "\&" before a "." or  *)
(*                      "'" that would start an output line                 *)
(*                    and EVERY line starting with "." or "'" is one of     *)
(*                    these requests, in order: text can never introduce a  *)
(*                    request.                                              *)
(***************************************************************************)
EXTENDS Sgr, Utf8
CONSTANT AcceptBoldDimExclusive   \* tolerance for finding F16 (bold and dim in one sequence: the later code wins)
VP == INSTANCE VtParser WITH MaxParams <- 32, MaxInter <- 2, MaxOsc <- 16, ParamCap <- 65535, OscRawCap <- 0, Utf8On <- TRUE

\* ---- segments of the input
RECURSIVE SegWalk(_, _, _, _)
SegWalk(evs, gr, text, acc) ==
  LET flush == IF text = <<>> THEN acc ELSE Append(acc, [gr |-> gr, text |-> text]) IN
  IF evs = <<>> THEN flush
  ELSE LET e == Head(evs) IN
    IF e.k = "print" THEN SegWalk(Tail(evs), gr, Append(text, e.c), acc)
    ELSE IF e.k = "exec" /\ e.b \in {9, 10, 12, 13} THEN SegWalk(Tail(evs), gr, Append(text, e.b), acc)
    ELSE IF e.k = "csi" /\ e.b = 109 /\ e.i = <<>> /\ ~e.ign THEN SegWalk(Tail(evs), ApplyStrict(Default, e.p), <<>>, flush)
    ELSE SegWalk(Tail(evs), gr, text, acc)
Segments(bytes) == SegWalk(VP!Run(VP!Init0, bytes)[2], Default, <<>>, <<>>)

\* ---- expected pieces
Name(c) == IF c = None THEN "default"
           ELSE CASE c[2] % 8 = 0 -> "black" [] c[2] % 8 = 1 -> "red" [] c[2] % 8 = 2 -> "green" [] c[2] % 8 = 3 -> "yellow"
                  [] c[2] % 8 = 4 -> "blue" [] c[2] % 8 = 5 -> "magenta" [] c[2] % 8 = 6 -> "cyan" [] c[2] % 8 = 7 -> "white"
Font(gr) == IF "BOLD" \in gr.eff \/ (gr.fg # None /\ gr.fg[1] = "ansi" /\ gr.fg[2] >= 8) THEN "B"
            ELSE IF "ITALIC" \in gr.eff THEN "I" ELSE "R"

\* ---- the document
RECURSIVE SplitLines(_, _, _)
SplitLines(s, cur, acc) ==
  IF s = <<>> THEN (IF cur = <<>> THEN acc ELSE Append(acc, cur))       \* a final newline does not open a line
  ELSE IF Head(s) = 10 THEN SplitLines(Tail(s), <<>>, Append(acc, cur))
  ELSE SplitLines(Tail(s), Append(cur, Head(s)), acc)
IsRequest(line) == line # <<>> /\ line[1] \in {46, 39}            \* "." or "'"

\* unescape one text block (lines joined by newline); returns <<ok, font, text>>
RECURSIVE Unesc(_, _, _)
Unesc(s, lineStart, acc) ==      \* <<ok, text>>
  IF s = <<>> THEN <<TRUE, acc>>
  ELSE IF lineStart /\ Len(s) >= 2 /\ s[1] = 92 /\ s[2] = 38 THEN Unesc(SubSeq(s, 3, Len(s)), FALSE, acc)     \* \&
  ELSE IF s[1] = 92 THEN
       IF Len(s) >= 2 /\ s[2] = 92 THEN Unesc(SubSeq(s, 3, Len(s)), FALSE, Append(acc, 92))
       ELSE IF Len(s) >= 2 /\ s[2] = 45 THEN Unesc(SubSeq(s, 3, Len(s)), FALSE, Append(acc, 45))
       ELSE <<FALSE, acc>>                                                  \* an escape the text did not ask for
  ELSE IF s[1] = 10 THEN Unesc(Tail(s), TRUE, Append(acc, 10))
  ELSE IF s[1] = 45 THEN <<FALSE, acc>>                                     \* a bare hyphen must be escaped
  ELSE Unesc(Tail(s), FALSE, Append(acc, s[1]))
StartsWith(s, p) == Len(s) >= Len(p) /\ SubSeq(s, 1, Len(p)) = p
EndsWith(s, p) == Len(s) >= Len(p) /\ SubSeq(s, Len(s) - Len(p) + 1, Len(s)) = p
FB == <<92, 102, 66>>  FI == <<92, 102, 73>>  FR == <<92, 102, 82>>
ParseBlock(b) ==
  LET font == IF StartsWith(b, FB) THEN "B" ELSE IF StartsWith(b, FI) THEN "I" ELSE "R"
      inner == IF font = "R" THEN b ELSE IF EndsWith(b, FR) /\ Len(b) >= 6 THEN SubSeq(b, 4, Len(b) - 3) ELSE <<0>>
      u == IF inner = <<0>> THEN <<FALSE, <<>>>> ELSE Unesc(inner, font = "R", <<>>)
  IN <<u[1], font, u[2]>>

RECURSIVE JoinLines(_)
JoinLines(ls) == IF ls = <<>> THEN <<>> ELSE IF Len(ls) = 1 THEN ls[1] ELSE ls[1] \o <<10>> \o JoinLines(Tail(ls))
AsString(line) == line   \* code points

ReqLine(cmd, name) == cmd \o <<32>> \o name
Cps(str) == CASE str = "default" -> <<100, 101, 102, 97, 117, 108, 116>> [] str = "black" -> <<98, 108, 97, 99, 107>>
              [] str = "red" -> <<114, 101, 100>> [] str = "green" -> <<103, 114, 101, 101, 110>>
              [] str = "yellow" -> <<121, 101, 108, 108, 111, 119>> [] str = "blue" -> <<98, 108, 117, 101>>
              [] str = "magenta" -> <<109, 97, 103, 101, 110, 116, 97>> [] str = "cyan" -> <<99, 121, 97, 110>>
              [] str = "white" -> <<119, 104, 105, 116, 101>>
GColor == <<46, 103, 99, 111, 108, 111, 114>>   \* .gcolor
FColor == <<46, 102, 99, 111, 108, 111, 114>>   \* .fcolor

\* consume the lines segment by segment
RECURSIVE Match(_, _)
Match(segs, lines) ==
  IF segs = <<>> THEN lines = <<>>
  ELSE IF Len(lines) < 3 THEN FALSE
  ELSE LET s == Head(segs)
           \* the block: following lines up to the next request line
           RECURSIVE Take(_)
           Take(k) == IF k > Len(lines) \/ IsRequest(lines[k]) THEN k - 1 ELSE Take(k + 1)
           last == Take(3)
           blk  == ParseBlock(JoinLines(SubSeq(lines, 3, last)))
       IN /\ lines[1] = ReqLine(GColor, Cps(Name(s.gr.fg)))
          /\ lines[2] = ReqLine(FColor, Cps(Name(s.gr.bg)))
          /\ last >= 3
          /\ blk[1] /\ blk[3] = s.text
          /\ (blk[2] = Font(s.gr) \/ (AcceptBoldDimExclusive /\ {"BOLD", "DIMMED"} \subseteq s.gr.eff
                                       /\ blk[2] = Font([s.gr EXCEPT !.eff = @ \ {"BOLD"}])))
          /\ Match(Tail(segs), SubSeq(lines, last + 1, Len(lines)))

DocOk(bytes, doc) == Match(Segments(bytes), SplitLines(doc, <<>>, <<>>))
=============================================================================
