------------------------------- MODULE Trace_Total -------------------------------
(* C04: totality.  Every operation of every specification module has a defined      *)
(* outcome for every input; so a panic, an overflow trap or a malformed piece is    *)
(* never a behaviour of the specification.  One line per input:                     *)
(*   {"n": input length, "apis": [[name, outcome, piecesOk] ...],                     *)
(*    "dbg": {"inter": .., "osc": .., "params": ..}}   (parser bookkeeping read from *)
(*    its Debug output after the input; -1 = not observable)                         *)
(* outcome must be "ok" for every entry point; returned text pieces must be valid    *)
(* UTF-8 inside the input (piecesOk); the bookkeeping must respect the limits that   *)
(* make the crate's unsafe blocks sound (VtParser!LimitsOk).                          *)
EXTENDS Integers, Sequences, Json, IOUtils, TLC
Rec == ndJsonDeserialize(IOEnv.TRACE)
VARIABLES l
TInit == l = 1
EventOk(e) ==
  /\ \A k \in 1..Len(e.apis) : e.apis[k][2] = "ok" /\ e.apis[k][3]
  /\ e.dbg.inter <= 2 /\ e.dbg.osc <= 16 /\ e.dbg.params <= 32
TNext == l <= Len(Rec) /\ (IF EventOk(Rec[l]) THEN TRUE ELSE FALSE) /\ l' = l + 1
TSpec == TInit /\ [][TNext]_l
Accepted == LET d == TLCGet("stats").diameter IN
            IF d - 1 = Len(Rec) THEN TRUE
            ELSE /\ PrintT(ToJson([reject_at |-> d, event |-> Rec[d]]))
                 /\ FALSE
=============================================================================
