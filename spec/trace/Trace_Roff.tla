------------------------------- MODULE Trace_Roff -------------------------------
(* Trace validation for C15: {"in":[bytes of the styled text], "doc":[code points of to_roff(..).to_roff()]} *)
EXTENDS Roff, Json, IOUtils, TLC
Rec == ndJsonDeserialize(IOEnv.TRACE)
VARIABLES l
TInit == l = 1
TNext == l <= Len(Rec) /\ (IF DocOk(Rec[l].in, Rec[l].doc) THEN TRUE ELSE FALSE) /\ l' = l + 1
TSpec == TInit /\ [][TNext]_l
Accepted == LET d == TLCGet("stats").diameter IN
            IF d - 1 = Len(Rec) THEN TRUE
            ELSE /\ PrintT(ToJson([reject_at |-> d, event |-> Rec[d]]))
                 /\ FALSE
=============================================================================
