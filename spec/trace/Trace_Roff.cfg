SPECIFICATION TSpec
POSTCONDITION Accepted
CHECK_DEADLOCK FALSE
CONSTANTS
 AcceptBoldDimExclusive = FALSE
