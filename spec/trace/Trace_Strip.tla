----------------------------- MODULE Trace_Strip -----------------------------
(* Trace validation for C01/C03/C04: one line per incremental strip call        *)
(*   {"api": "bytes" | "str" | "stream", "new": 0|1, "in": [bytes],              *)
(*    "pcs": [[offset, len], ...]}                                               *)
(* api bytes  = StripBytes::strip_next (pieces by pointer offset into the chunk) *)
(* api str    = StripStr::strip_next                                             *)
(* api stream = StripStream::write_all into a recording inner writer (pieces =   *)
(*              the slices handed to the inner writer)                           *)
(* new = 1 starts a fresh adapter.  Every call is judged against Strip!Judge,    *)
(* whose state is carried across calls - so a chunk boundary can never change    *)
(* what is acceptable (C03).                                                     *)
EXTENDS Strip, Json, IOUtils, TLC
Rec == ndJsonDeserialize(IOEnv.TRACE)
VARIABLES l, js
TInit == l = 1 /\ js = JInit

CharPiecesOk(in, pcs) ==
  \A k \in 1..Len(pcs) :
     /\ StartsChar(in[pcs[k][1] + 1])
     /\ (pcs[k][1] + pcs[k][2] = Len(in) \/ StartsChar(in[pcs[k][1] + pcs[k][2] + 1]))

TNext == /\ l <= Len(Rec)
         /\ LET e  == Rec[l]
                n  == Len(e.in)
                j0 == IF e.new = 1 THEN JInit ELSE js
                \* state-level checks go through an IF guard so that TLC evaluates them as plain
                \* expressions (a disjunction met while enumerating successors is split as an action)
            IN /\ IF e.api \in {"bytes", "str", "stream"} /\ PiecesGeomOk(e.pcs, n)
                     /\ (e.api = "str" => CharPiecesOk(e.in, e.pcs))
                  THEN TRUE ELSE FALSE
               /\ LET res == JudgeRun(j0, e.in, KeptFlags(e.pcs, n), 1)
                  IN (IF res[2] = 0 THEN TRUE ELSE FALSE) /\ js' = res[1]
         /\ l' = l + 1
TSpec == TInit /\ [][TNext]_<<l, js>>
Accepted == LET d == TLCGet("stats").diameter IN
            IF d - 1 = Len(Rec) THEN TRUE
            ELSE /\ PrintT(ToJson([reject_at |-> d, event |-> Rec[d]]))
                 /\ FALSE
=============================================================================
