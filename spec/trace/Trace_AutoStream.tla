--------------------------- MODULE Trace_AutoStream ---------------------------
(* Trace validation for C08: one line per call on an AutoStream over a scripted *)
(* inner writer.  A run starts with op "new" carrying the requested choice, the *)
(* environment's decision for Auto and what current_choice() reports; then      *)
(* write-family calls, "flush" and a final "into_inner" with the bytes found in *)
(* the returned writer.                                                         *)
EXTENDS AutoStream, Json, IOUtils, TLC
Rec == ndJsonDeserialize(IOEnv.TRACE)
VARIABLES l, js, mode, live, acc
vars == <<l, js, mode, live, acc>>
TInit == l = 1 /\ js = JInit /\ mode = "Strip" /\ live = "live" /\ acc = <<>>
Guard(p) == IF p THEN TRUE ELSE FALSE
TNext ==
  /\ l <= Len(Rec)
  /\ LET e == Rec[l] IN
     IF e.op = "new" THEN
        /\ Guard(e.choice \in Choices /\ e.reported = Reported(ModeOf(e.choice, e.auto, FALSE)))
        /\ mode' = ModeOf(e.choice, e.auto, FALSE) /\ js' = JInit /\ live' = "live" /\ acc' = <<>>
     ELSE IF e.op = "into_inner" THEN
        /\ Guard(e.buf = acc)
        /\ UNCHANGED <<js, mode, live, acc>>
     ELSE IF e.op = "flush" THEN
        /\ Guard(e.ret[1] = "ok" /\ e.ret[2] = 1)          \* forwarded exactly once
        /\ UNCHANGED <<js, mode, live, acc>>
     ELSE
        /\ acc' = acc \o (IF InnerGeomOk(e.inner, Len(e.buf)) THEN AcceptedBytes(e.buf, e.inner, 1) ELSE <<>>)
        /\ mode' = mode
        /\ IF live # "live" THEN
              /\ Guard(IF e.ret[1] = "ok" THEN e.ret[2] <= Len(e.buf) ELSE TRUE)
              /\ js' = js /\ live' = live
           ELSE IF mode = "PassThrough" THEN
              /\ Guard(PassCallOk(e))
              /\ js' = js /\ live' = IF Terminal(e) THEN "done" ELSE "live"
           ELSE LET c == CallOk(js, e) IN
              IF AcceptErrAdvance /\ Tainting(js, e)
              THEN /\ Guard(HasErr(e.inner, "eI")) /\ js' = js /\ live' = "tainted"
              ELSE /\ Guard(c[1]) /\ js' = c[2] /\ live' = IF Terminal(e) THEN "done" ELSE "live"
  /\ l' = l + 1
TSpec == TInit /\ [][TNext]_vars
Accepted == LET d == TLCGet("stats").diameter IN
            IF d - 1 = Len(Rec) THEN TRUE
            ELSE /\ PrintT(ToJson([reject_at |-> d, event |-> Rec[d]]))
                 /\ FALSE
=============================================================================
