-------------------------- MODULE Trace_StripStream --------------------------
(* Trace validation for C06 (and the stripping half of C08): one line per      *)
(* write-family call on a StripStream / AutoStream::never over a scripted      *)
(* inner writer:                                                               *)
(*  {"op","new":0|1,"buf":[bytes],"inner":[[off,len,res,k]..],"ret":[kind,n]} *)
EXTENDS StripStream, Json, IOUtils, TLC
Rec == ndJsonDeserialize(IOEnv.TRACE)
VARIABLES l, js, mode      \* mode: "live" | "done" (after a terminal error) | "tainted" (F5, lenient only)
TInit == l = 1 /\ js = JInit /\ mode = "live"
TNext == /\ l <= Len(Rec)
         /\ LET e  == Rec[l]
                j0 == IF e.new = 1 THEN JInit ELSE js
                m0 == IF e.new = 1 THEN "live" ELSE mode
            IN IF m0 # "live" THEN
                  \* nothing is judged after a terminal error or (lenient) a tainting retry,
                  \* except I1 and I3 which do not depend on history
                  /\ IF e.ret[1] = "ok" THEN e.ret[2] <= Len(e.buf) ELSE TRUE
                  /\ js' = j0 /\ mode' = m0
               ELSE LET c == CallOk(j0, e) IN
                    IF AcceptErrAdvance /\ Tainting(j0, e)
                    THEN /\ (IF HasErr(e.inner, "eI") THEN TRUE ELSE FALSE)
                         /\ js' = j0 /\ mode' = "tainted"
                    ELSE /\ (IF c[1] THEN TRUE ELSE FALSE)
                         /\ js' = c[2]
                         /\ mode' = IF Terminal(e) THEN "done" ELSE "live"
         /\ l' = l + 1
TSpec == TInit /\ [][TNext]_<<l, js, mode>>
Accepted == LET d == TLCGet("stats").diameter IN
            IF d - 1 = Len(Rec) THEN TRUE
            ELSE /\ PrintT(ToJson([reject_at |-> d, event |-> Rec[d]]))
                 /\ FALSE
=============================================================================
