SPECIFICATION TSpec
POSTCONDITION Accepted
CHECK_DEADLOCK FALSE
CONSTANTS
 MaxParams = 32
 MaxInter = 2
 MaxOsc = 16
 ParamCap = 65535
 OscRawCap = 0
 Utf8On = TRUE
