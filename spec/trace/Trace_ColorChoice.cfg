SPECIFICATION TSpec
POSTCONDITION Accepted
CHECK_DEADLOCK FALSE
