-------------------------- MODULE Trace_StyleAlgebra --------------------------
(* Trace validation for C13.  Events:                                             *)
(*  k="eff":  a, bs = [b..], res = {op: [result per b]}, iter/debug = member names  *)
(*            in the order produced, plain, clear                                   *)
(*  k="set":  style setter/getter/convenience law: st0, op, arg, st1, get           *)
(*  k="eq":   Style == Effects : st, eff bits, result                                *)
(*  k="on":   colour constructors; k="plain": Style::is_plain; k="from"/"from_eff": From conversions *)
(*  k="col":  AnsiColor index k: from_ansi, into_ansi, bright(true/false), is_bright *)
(*  k="idx":  Ansi256 index i: into_ansi (none = 16), index()                        *)
EXTENDS StyleAlgebra, Json, IOUtils, TLC
Rec == ndJsonDeserialize(IOEnv.TRACE)
VARIABLES l
TInit == l = 1
ToSet(s) == {s[k] : k \in 1..Len(s)}
Gr(st) == [fg |-> st.fg, bg |-> st.bg, ul |-> st.ul, eff |-> ToSet(st.eff)]
Ops == {"insert", "or", "or_assign", "remove", "sub", "sub_assign", "set1", "set0", "contains"}
EventOk(e) ==
  CASE e.k = "eff" ->
         /\ \A op \in Ops : \A j \in 1..Len(e.bs) : e.res[op][j] = BinOp(op, e.a, e.bs[j])
         /\ e.iter = InOrder(SetOf(e.a)) /\ e.debug = InOrder(SetOf(e.a))
         /\ \A j \in 1..Len(e.after) :        \* provided Iterator methods after k calls of next()
               LET left == IterLeft(e.a, e.after[j].k) IN
               /\ e.after[j].count = left /\ e.after[j].skip_count = left
               /\ e.after[j].lo <= left /\ (e.after[j].hi = 999999 \/ left <= e.after[j].hi)
         /\ e.plain = (e.a = 0) /\ e.clear = 0
    [] e.k = "set" ->
         LET g0 == Gr(e.st0) g1 == Gr(e.st1) IN
         CASE e.op = "fg" -> g1 = [g0 EXCEPT !.fg = e.arg] /\ e.get = e.arg
           [] e.op = "bg" -> g1 = [g0 EXCEPT !.bg = e.arg] /\ e.get = e.arg
           [] e.op = "ul" -> g1 = [g0 EXCEPT !.ul = e.arg] /\ e.get = e.arg
           [] e.op = "effects" -> g1 = [g0 EXCEPT !.eff = SetOf(e.arg)] /\ e.get = e.arg
           [] e.op = "conv" -> g1 = [g0 EXCEPT !.eff = @ \cup {e.arg}]          \* bold(), dimmed(), ...
           [] e.op = "or" -> g1 = [g0 EXCEPT !.eff = @ \cup SetOf(e.arg)]
           [] e.op = "sub" -> g1 = [g0 EXCEPT !.eff = @ \ SetOf(e.arg)]
           [] OTHER -> FALSE
    [] e.k = "eq" ->
         LET g == Gr(e.st) IN e.res = (g.fg = None /\ g.bg = None /\ g.ul = None /\ g.eff = SetOf(e.eff))
    [] e.k = "on" ->          \* c.on(b) / c.on_default() for every colour type; Style::from(effects); Style::is_plain
         /\ Gr(e.on) = OnStyle(e.c, e.b) /\ Gr(e.on_default) = OnStyle(e.c, None)
    [] e.k = "plain" -> e.res = IsPlainStyle(Gr(e.st)) /\ e.new_is_plain
    [] e.k = "from" -> e.r = ConvOf(e.which, e.n)
    [] e.k = "from_eff" -> Gr(e.st) = [fg |-> None, bg |-> None, ul |-> None, eff |-> SetOf(e.eff)]
    [] e.k = "col" ->
         /\ e.from_ansi = e.i /\ e.into_ansi = e.i
         /\ e.bright1 = Bright(e.i, TRUE) /\ e.bright0 = Bright(e.i, FALSE) /\ e.is_bright = IsBright(e.i)
    [] e.k = "idx" ->
         /\ e.into_ansi = (IF e.i < 16 THEN e.i ELSE 16) /\ e.index = e.i
    [] OTHER -> FALSE
TNext == l <= Len(Rec) /\ (IF EventOk(Rec[l]) THEN TRUE ELSE FALSE) /\ l' = l + 1
TSpec == TInit /\ [][TNext]_l
Accepted == LET d == TLCGet("stats").diameter IN
            IF d - 1 = Len(Rec) THEN TRUE
            ELSE /\ PrintT(ToJson([reject_at |-> d, event |-> Rec[d]]))
                 /\ FALSE
=============================================================================
