-------------------------- MODULE Trace_WinconStream --------------------------
(* Trace validation for C18: one line per write-family call on the legacy-console *)
(* stream over a recording console writer.                                         *)
EXTENDS WinconStream, Json, IOUtils, TLC
Rec == ndJsonDeserialize(IOEnv.TRACE)
VARIABLES l, xs, live
TInit == l = 1 /\ xs = XInit /\ live = TRUE
(* new = 2: the probe after a FAILED call (reliable console, buffer ESC ESC [ 0 m "probe"): whatever state the failed call  *)
(* left behind, the console is handed "probe" in the default colours after at most four bytes of debris (a character the     *)
(* failed call cut short may surface as U+FFFD or eat the first ESC); nothing of the failed message is handed over again.     *)
ProbeText == <<112, 114, 111, 98, 101>>
ProbeOk(e) ==
  LET obs == FlatConsole(e.console)
      n   == Len(obs)
  IN /\ e.ret[1] = "ok"
     /\ n >= 5 /\ n <= 9
     /\ \A k \in 1..5 : obs[n - 5 + k] = <<<<16, 16>>, ProbeText[k]>>
TNext == /\ l <= Len(Rec)
         /\ LET e  == Rec[l]
                x0 == IF e.new = 1 THEN XInit ELSE xs
                lv == IF e.new = 1 THEN TRUE ELSE live
                nx == ConsoleNext(x0, e)
            IN IF e.new = 2 THEN (IF ProbeOk(e) THEN TRUE ELSE FALSE) /\ xs' = xs /\ live' = FALSE
               ELSE IF lv THEN (\E y \in nx : xs' = y) /\ live' = (e.ret[1] = "ok")
               ELSE xs' = x0 /\ live' = lv
         /\ l' = l + 1
TSpec == TInit /\ [][TNext]_<<l, xs, live>>
Accepted == LET d == TLCGet("stats").diameter IN
            IF d - 1 = Len(Rec) THEN TRUE
            ELSE /\ PrintT(ToJson([reject_at |-> d, event |-> Rec[d]]))
                 /\ FALSE
=============================================================================
