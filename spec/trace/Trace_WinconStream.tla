-------------------------- MODULE Trace_WinconStream --------------------------
(* Trace validation for C18: one line per write-family call on the legacy-console *)
(* stream over a recording console writer.                                         *)
EXTENDS WinconStream, Json, IOUtils, TLC
Rec == ndJsonDeserialize(IOEnv.TRACE)
VARIABLES l, xs, live
TInit == l = 1 /\ xs = XInit /\ live = TRUE
TNext == /\ l <= Len(Rec)
         /\ LET e  == Rec[l]
                x0 == IF e.new = 1 THEN XInit ELSE xs
                lv == IF e.new = 1 THEN TRUE ELSE live
                nx == ConsoleNext(x0, e)
            IN IF lv THEN (\E y \in nx : xs' = y) /\ live' = (e.ret[1] = "ok")
               ELSE xs' = x0 /\ live' = lv
         /\ l' = l + 1
TSpec == TInit /\ [][TNext]_<<l, xs, live>>
Accepted == LET d == TLCGet("stats").diameter IN
            IF d - 1 = Len(Rec) THEN TRUE
            ELSE /\ PrintT(ToJson([reject_at |-> d, event |-> Rec[d]]))
                 /\ FALSE
=============================================================================
