----------------------------- MODULE Trace_LsColors -----------------------------
(* Trace validation for C12: {"s":[code points], "r":["none"]|["reject"]|["ok",style]|["panic"]} *)
EXTENDS LsColors, Json, IOUtils, TLC
Rec == ndJsonDeserialize(IOEnv.TRACE)
VARIABLES l
TInit == l = 1
ToSet(s) == {s[k] : k \in 1..Len(s)}
Same(e) == LET p == Parse(e.s) IN
           IF p[1] = "odd" THEN e.r[1] # "panic"
           ELSE IF p[1] = "ok" THEN e.r[1] = "ok" /\ e.r[2].fg = p[2].fg /\ e.r[2].bg = p[2].bg /\ e.r[2].ul = p[2].ul /\ ToSet(e.r[2].eff) = p[2].eff
           ELSE e.r = p
TNext == l <= Len(Rec) /\ (IF Same(Rec[l]) THEN TRUE ELSE FALSE) /\ l' = l + 1
TSpec == TInit /\ [][TNext]_l
Accepted == LET d == TLCGet("stats").diameter IN
            IF d - 1 = Len(Rec) THEN TRUE
            ELSE /\ PrintT(ToJson([reject_at |-> d, event |-> Rec[d]]))
                 /\ FALSE
=============================================================================
