-------------------------------- MODULE Trace_Svg --------------------------------
(* Trace validation for C14: {"in":[bytes], "cfg":{pal,fg,bg,background,padding}, "dom": expat dump of render_svg} *)
EXTENDS Svg, Json, IOUtils, TLC
Rec == ndJsonDeserialize(IOEnv.TRACE)
VARIABLES l
TInit == l = 1
TNext == l <= Len(Rec) /\ (IF DocOk(Rec[l]) THEN TRUE ELSE FALSE) /\ l' = l + 1
TSpec == TInit /\ [][TNext]_l
Accepted == LET d == TLCGet("stats").diameter IN
            IF d - 1 = Len(Rec) THEN TRUE
            ELSE /\ PrintT(ToJson([reject_at |-> d, input |-> Rec[d].in]))
                 /\ FALSE
=============================================================================
