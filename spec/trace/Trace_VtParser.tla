--------------------------- MODULE Trace_VtParser ---------------------------
(* Trace validation for C02/C20: one line per Parser::advance call            *)
(*   {"b": byte, "e": [callback events]}     b = 256 : a fresh parser starts  *)
(*   {"b": 257, "rb": byte, "rn": n, "e": []}  n copies of one byte (long runs  *)
(*                                            inside a string, fed in bulk)     *)
(* Every step must be exactly VtParser!Step; the documented limits are         *)
(* asserted on the specification state after every step.                      *)
EXTENDS VtParser, Json, IOUtils, TLC
Rec == ndJsonDeserialize(IOEnv.TRACE)
VARIABLES l, ps
TInit == l = 1 /\ ps = Init0
TNext == /\ l <= Len(Rec)
         /\ IF Rec[l].b = 256 THEN ps' = Init0
            ELSE IF Rec[l].b = 257 THEN                       \* rn copies of byte rb, no callback observed
                 LET r == StepRun(ps, Rec[l].rb, Rec[l].rn) IN
                 /\ r[2] = Rec[l].e /\ LimitsOk(r[1]) /\ ps' = r[1]
            ELSE LET r == Step(ps, Rec[l].b) IN
                 /\ r[2] = Rec[l].e
                 /\ LimitsOk(r[1])
                 /\ \A k \in 1..Len(r[2]) : EventLimitsOk(r[2][k])
                 /\ ps' = r[1]
         /\ l' = l + 1
TSpec == TInit /\ [][TNext]_<<l, ps>>
Accepted == LET d == TLCGet("stats").diameter IN
            IF d - 1 = Len(Rec) THEN TRUE
            ELSE /\ PrintT(ToJson([reject_at |-> d, event |-> Rec[d]]))
                 /\ FALSE
=============================================================================
