SPECIFICATION TSpec
INVARIANT NotDone
CHECK_DEADLOCK FALSE
