---------------------------- MODULE Trace_PrintLock ----------------------------
(* Trace validation for C19 (printing): the byte stream read from the child's      *)
(* pipe, cut into fragments {"t":thread,"c":call,"f":index,"n":fragments of the     *)
(* call} in the order they arrived ("t" = 0: bytes that are not a whole fragment). *)
(* Each fragment must be a WriteFragment step of PrintLock (lock per call), with   *)
(* Acquire composed before a call's first fragment; calls of one thread in order.  *)
EXTENDS Naturals, Sequences, Json, IOUtils, TLC
Rec == ndJsonDeserialize(IOEnv.TRACE)
VARIABLES l, holder, nextf, lastc
vars == <<l, holder, nextf, lastc>>
TInit == l = 1 /\ holder = 0 /\ nextf = 0 /\ lastc = [t \in 1..64 |-> 0]
TNext == /\ l <= Len(Rec)
         /\ LET e == Rec[l] IN
            /\ e.t >= 1 /\ e.t <= 64
            \* (thread numbers above 32 carry records that are compile-time literals - the same record, call number 1, every time)
            /\ IF e.f = 1 THEN holder = 0 /\ (IF e.t > 32 THEN e.c >= lastc[e.t] ELSE e.c > lastc[e.t])   \* Acquire ; first fragment
               ELSE holder = e.t /\ nextf = e.f /\ e.c = lastc[e.t]               \* the call in progress continues
            /\ lastc' = [lastc EXCEPT ![e.t] = e.c]
            /\ IF e.f = e.n THEN holder' = 0 /\ nextf' = 0 ELSE holder' = e.t /\ nextf' = e.f + 1
         /\ l' = l + 1
TSpec == TInit /\ [][TNext]_vars
Accepted == LET d == TLCGet("stats").diameter IN
            IF d - 1 = Len(Rec) THEN TRUE
            ELSE /\ PrintT(ToJson([reject_at |-> d, event |-> Rec[d]]))
                 /\ FALSE
=============================================================================
