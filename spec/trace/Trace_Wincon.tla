----------------------------- MODULE Trace_Wincon -----------------------------
(* Trace validation for C07 / C03 (extractor): one line per extract_next call    *)
(*   {"new":0|1, "in":[bytes], "runs":[[style, [code points]], ...]}              *)
(* style = {"fg":c,"bg":c,"ul":c,"eff":[names]}                                    *)
EXTENDS WinconExtract, Json, IOUtils, TLC
Rec == ndJsonDeserialize(IOEnv.TRACE)
VARIABLES l, xs
TInit == l = 1 /\ xs = XInit
TNext == /\ l <= Len(Rec)
         /\ LET e == Rec[l]
                c == CallOk(IF e.new = 1 THEN XInit ELSE xs, e.in, e.runs)
            IN (IF c[2] THEN TRUE ELSE FALSE) /\ xs' = c[1]
         /\ l' = l + 1
TSpec == TInit /\ [][TNext]_<<l, xs>>
Accepted == LET d == TLCGet("stats").diameter IN
            IF d - 1 = Len(Rec) THEN TRUE
            ELSE /\ PrintT(ToJson([reject_at |-> d, event |-> Rec[d]]))
                 /\ FALSE
=============================================================================
