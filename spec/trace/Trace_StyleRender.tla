-------------------------- MODULE Trace_StyleRender --------------------------
(* Trace validation for C05: one line per rendered value.                       *)
(*  k = "style":   st = style, alt = distinct byte strings produced by the       *)
(*                 rendering paths and format-flag grid, reset = the same for    *)
(*                 the reset form ({:#}, render_reset, write_reset_to)           *)
(*  k = "color":   one colour in one slot (Color::render_fg/bg/underline)        *)
(*  k = "effects": Effects::render                                               *)
(*  k = "reset":   Reset / Reset::render                                         *)
EXTENDS StyleRender, Json, IOUtils, TLC
Rec == ndJsonDeserialize(IOEnv.TRACE)
VARIABLES l
TInit == l = 1
Guard(p) == IF p THEN TRUE ELSE FALSE
EventOk(e) ==
  CASE e.k = "style" ->
         LET gr == GrOf(e.st) IN
         /\ Len(e.alt) = 1 /\ RenderOk(gr, e.alt[1])
         /\ Len(e.reset) = 1 /\ ResetOk(gr, e.reset[1])
    [] e.k = "color" ->
         /\ Len(e.alt) = 1 /\ RenderOk(SetCol(Default, e.slot, e.c), e.alt[1])
    [] e.k = "effects" ->
         /\ Len(e.alt) = 1 /\ RenderOk([Default EXCEPT !.eff = ToSet(e.eff)], e.alt[1])
    [] e.k = "reset" ->
         /\ Len(e.alt) = 1 /\ e.alt[1] # <<>> /\ PureSgr(e.alt[1])
         /\ Interpret([fg |-> <<"ansi", 1>>, bg |-> <<"idx", 200>>, ul |-> <<"rgb", 1, 2, 3>>, eff |-> Effects], e.alt[1]) = Default
    [] OTHER -> FALSE
TNext == l <= Len(Rec) /\ Guard(EventOk(Rec[l])) /\ l' = l + 1
TSpec == TInit /\ [][TNext]_l
Accepted == LET d == TLCGet("stats").diameter IN
            IF d - 1 = Len(Rec) THEN TRUE
            ELSE /\ PrintT(ToJson([reject_at |-> d, event |-> Rec[d]]))
                 /\ FALSE
=============================================================================
