------------------------------ MODULE Trace_Lossy ------------------------------
(* Trace validation for C10: one line per conversion call.                        *)
(*  {"op", "c":[r,g,b] | "i":n | "k":n | "col":colour, "pal":[[r,g,b] x16], "r":result} *)
EXTENDS Lossy, Json, IOUtils, TLC
Rec == ndJsonDeserialize(IOEnv.TRACE)
VARIABLES l
TInit == l = 1
EventOk(e) ==
  CASE e.op = "rgb_to_xterm"  -> RgbToXtermOk(e.c, e.r)
    [] e.op = "rgb_to_ansi"   -> RgbToAnsiOk(e.c, e.pal, e.r)
    [] e.op = "xterm_to_ansi" -> XtermToAnsiOk(e.i, e.pal, e.r)
    [] e.op = "xterm_to_rgb"  -> e.r = XtermToRgb(e.i, e.pal)
    [] e.op = "ansi_to_rgb"   -> e.r = AnsiToRgb(e.k, e.pal) /\ e.get = e.r /\ e.index = e.r
    [] e.op = "color_to_rgb"  -> ColorToRgbOk(e.col, e.pal, e.r)
    [] e.op = "color_to_xterm" -> ColorToXtermOk(e.col, e.r)
    [] e.op = "color_to_ansi" -> ColorToAnsiOk(e.col, e.pal, e.r)
    [] OTHER -> FALSE
TNext == l <= Len(Rec) /\ (IF EventOk(Rec[l]) THEN TRUE ELSE FALSE) /\ l' = l + 1
TSpec == TInit /\ [][TNext]_l
Accepted == LET d == TLCGet("stats").diameter IN
            IF d - 1 = Len(Rec) THEN TRUE
            ELSE /\ PrintT(ToJson([reject_at |-> d, event |-> Rec[d]]))
                 /\ FALSE
=============================================================================
