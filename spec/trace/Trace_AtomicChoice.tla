--------------------------- MODULE Trace_AtomicChoice ---------------------------
(* Trace validation for C19 (global choice): events ordered by a SeqCst sequence    *)
(* number taken by the harness at invocation and response:                          *)
(*   {"e":"inv"|"res"|"start", "id":n, "kind":"w"|"r", "val":0..3}                   *)
(* The trace is accepted iff SOME interleaving of Linearize steps explains it; TLC  *)
(* searches (depth-first).  Reaching the end of the trace violates NotDone - that   *)
(* "violation" is the acceptance signal; an exhausted search means no linearization.*)
EXTENDS AtomicChoice, Json, IOUtils, TLC
Rec == ndJsonDeserialize(IOEnv.TRACE)
VARIABLES l, s
vars == <<l, s>>
TInit == l = 1 /\ s = RegInit
Op(e) == [id |-> e.id, kind |-> e.kind, val |-> e.val]
Consume ==
  /\ l <= Len(Rec)
  /\ LET e == Rec[l] IN
     CASE e.e = "start" -> s.pending = {} /\ s.done = {} /\ s' = [RegInit EXCEPT !.reg = e.val]
       [] e.e = "inv"   -> s' = Invoke(s, Op(e))
       [] e.e = "res"   -> CanRespond(s, Op(e)) /\ s' = Respond(s, Op(e))
  /\ l' = l + 1
Lin == \E op \in s.pending : CanLinearize(s, op) /\ s' = Linearize(s, op) /\ UNCHANGED l
TNext == Consume \/ Lin
TSpec == TInit /\ [][TNext]_vars
NotDone == l <= Len(Rec)
=============================================================================
