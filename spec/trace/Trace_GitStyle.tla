----------------------------- MODULE Trace_GitStyle -----------------------------
(* Trace validation for C11: one line per anstyle_git::parse call                    *)
(*  {"s":[code points], "r":["ok",{"fg","bg","eff":[..]}] | ["extra",[cps]] | ["unknown",[cps]] | ["panic"]} *)
EXTENDS GitStyle, Json, IOUtils, TLC
Rec == ndJsonDeserialize(IOEnv.TRACE)
VARIABLES l
TInit == l = 1
ToSet(s) == {s[k] : k \in 1..Len(s)}
Same(e) == LET p == Parse(e.s) IN
           IF ~InDomain(e.s) THEN e.r[1] # "panic"
           ELSE IF p[1] = "ok" THEN e.r[1] = "ok" /\ e.r[2].fg = p[2].fg /\ e.r[2].bg = p[2].bg /\ ToSet(e.r[2].eff) = p[2].eff
                                    /\ e.r[2].ul = None
           ELSE e.r[1] = p[1] /\ e.r[2] = p[2]
TNext == l <= Len(Rec) /\ (IF Same(Rec[l]) THEN TRUE ELSE FALSE) /\ l' = l + 1
TSpec == TInit /\ [][TNext]_l
Accepted == LET d == TLCGet("stats").diameter IN
            IF d - 1 = Len(Rec) THEN TRUE
            ELSE /\ PrintT(ToJson([reject_at |-> d, event |-> Rec[d], expected |-> Parse(Rec[d].s)]))
                 /\ FALSE
=============================================================================
