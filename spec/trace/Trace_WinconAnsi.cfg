SPECIFICATION TSpec
POSTCONDITION Accepted
CHECK_DEADLOCK FALSE
CONSTANTS
 D_RunGroundRow = FALSE
 D_StrReset = FALSE
 D_Utf8CtlLeak = FALSE
 AcceptCtlLeak = FALSE
