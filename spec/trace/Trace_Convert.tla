----------------------------- MODULE Trace_Convert -----------------------------
(* Trace validation for C16: {"lib", "st": style, "bytes": rendering by the library} *)
(* or {"lib":"syntect","src":{..},"st": converted style}                             *)
EXTENDS Convert, Json, IOUtils, TLC
Rec == ndJsonDeserialize(IOEnv.TRACE)
VARIABLES l
TInit == l = 1
EventOk(e) == IF e.lib = "syntect" THEN FromSyntectOk(e.src, e.st) ELSE RenderedOk(e.lib, e.st, e.bytes)
TNext == l <= Len(Rec) /\ (IF EventOk(Rec[l]) THEN TRUE ELSE FALSE) /\ l' = l + 1
TSpec == TInit /\ [][TNext]_l
Accepted == LET d == TLCGet("stats").diameter IN
            IF d - 1 = Len(Rec) THEN TRUE
            ELSE /\ PrintT(ToJson([reject_at |-> d, event |-> Rec[d]]))
                 /\ FALSE
=============================================================================
