--------------------------- MODULE Trace_ColorChoice ---------------------------
(* Trace validation for C09, implementation -> specification:                      *)
(*  k = "decide"  the automatic decision observed for one real handle of a child   *)
(*                process whose fd 1 / fd 2 the driver bound to a pty or a pipe:    *)
(*                decision = Query("Auto", env, term of THAT handle)                *)
(*  k = "clap"    --color=<arg> parsed and written through after a prior value of   *)
(*                the process-wide choice: parsed = ClapFlag(arg) (absent = auto),  *)
(*                the global afterwards is the parsed value whatever it was before; *)
(*                anything but auto/always/never is rejected and writes nothing     *)
EXTENDS ColorChoice, Json, IOUtils, TLC
Rec == ndJsonDeserialize(IOEnv.TRACE)
VARIABLE l
Flags == {"auto", "always", "never"}
EvOk(e) ==
  IF e.k = "decide" THEN
     LET q == Query("Auto", e.env, e.term) IN
     \* via "choice": AutoStream::choice(&handle); via "current_choice": the mode the stream built from it reports
     \* (non-Windows: Always is carried out as pass-through and reported as AlwaysAnsi)
     IF e.via = "choice" THEN e.decision = q
     ELSE e.decision = (IF q = "Always" THEN "AlwaysAnsi" ELSE q)
  ELSE IF e.arg = "absent" THEN e.parsed = "Auto" /\ e.global_after = "Auto"
  ELSE IF e.arg \in Flags THEN e.parsed = ClapFlag(e.arg) /\ e.global_after = ClapFlag(e.arg)
  ELSE e.parsed = "rejected" /\ e.global_after = e.prior
TInit == l = 1
TNext == l <= Len(Rec) /\ (IF EvOk(Rec[l]) THEN TRUE ELSE FALSE) /\ l' = l + 1
TSpec == TInit /\ [][TNext]_l
Accepted == LET d == TLCGet("stats").diameter IN
            IF d - 1 = Len(Rec) THEN TRUE
            ELSE /\ PrintT(ToJson([reject_at |-> d, event |-> Rec[d]]))
                 /\ FALSE
=============================================================================
