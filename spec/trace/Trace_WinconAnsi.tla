--------------------------- MODULE Trace_WinconAnsi ---------------------------
(* Trace validation for C17: one line per write_colored call                      *)
(*  {"fg":0..16,"bg":0..16,"data":[bytes],"inner":[[bytes,res,k]..],"ret":[kind,n]} *)
EXTENDS WinconAnsi, Json, IOUtils, TLC
Rec == ndJsonDeserialize(IOEnv.TRACE)
VARIABLES l
TInit == l = 1
TNext == l <= Len(Rec) /\ (IF CallOk(Rec[l]) THEN TRUE ELSE FALSE) /\ l' = l + 1
TSpec == TInit /\ [][TNext]_l
Accepted == LET d == TLCGet("stats").diameter IN
            IF d - 1 = Len(Rec) THEN TRUE
            ELSE /\ PrintT(ToJson([reject_at |-> d, event |-> Rec[d]]))
                 /\ FALSE
=============================================================================
