----------------------------- MODULE StripStream -----------------------------
(***************************************************************************)
(* anstream::StripStream as an io::Write adapter over an unreliable inner   *)
(* writer (C06).                                                            *)
(*                                                                         *)
(* OBSERVATIONAL LAYER (what the property asks; used for every verdict).    *)
(* A call is observed as                                                    *)
(*   op    "write" | "vectored" | "write_all" | "write_fmt"                 *)
(*   buf   the bytes submitted                                              *)
(*   inner the inner writes it made: <<offset in buf, length, result, k>>   *)
(*         result "ok" (k bytes accepted) | "eI" | "eW" | "eO"               *)
(*   ret   <<"ok", n>> or <<"eI"|"eW"|"eO"|"eZ"|"eF", 0>>                    *)
(* CallOk judges one call against the Strip judge carried across calls:     *)
(*   I1 n <= Len(buf)                                                       *)
(*   I2 on Ok the bytes the inner writer accepted are exactly an allowed    *)
(*      selection of buf[1..n] (nothing accepted beyond n, nothing visible  *)
(*      missing, no escape byte) - with the judge state carried over, this  *)
(*      is "nothing lost, duplicated, reordered or leaked" for a caller     *)
(*      that resubmits the tail                                             *)
(*   I3 an inner error surfaces with its kind; never Ok                     *)
(*   I4 Err(Interrupted) from write leaves nothing delivered and the state  *)
(*      as before the call (the retry is judged from the same judge state)  *)
(*   I5 progress: Ok(0) for a non-empty buffer only if the inner writer    *)
(*      itself accepted nothing of a non-empty piece (otherwise the        *)
(*      protocol-following caller - write_all: WriteZero - never "ends up  *)
(*      having delivered" the input)                                        *)
(* It does not prescribe how many inner writes a call makes.                *)
(*                                                                         *)
(* ALGORITHM LAYER (design + named deviations; MC_StripStream).             *)
(*   OnePiece     ideal: at most one inner write per write call             *)
(*   D_ReplayTail short write: scanner state rebuilt from the unconsumed    *)
(*                tail instead of the consumed head (finding F4)            *)
(*   D_ErrAdvance multi-piece loop; Err returned with earlier pieces        *)
(*                delivered and the scanner state left advanced (F5)        *)
(* Both deviations were what the code did at the pinned commit; the repairs *)
(* 0f44f7b and 2b0f21d made the code the OnePiece design.  They stay in the *)
(* model as the counterexample-producing variants (non-vacuity of           *)
(* Consistent), and AcceptErrAdvance stays as a switch that is now off.     *)
(***************************************************************************)
EXTENDS Strip, Naturals

CONSTANT AcceptErrAdvance   \* judge: tolerate known finding F5 (see Tainted)

IsErr(r) == r \in {"eI", "eW", "eO"}

\* inner writes: geometry inside buf, in order, accepted counts sane
InnerGeomOk(inner, n) ==
  /\ \A k \in 1..Len(inner) :
        /\ inner[k][1] >= 0 /\ inner[k][2] >= 1 /\ inner[k][1] + inner[k][2] <= n
        /\ inner[k][3] \in {"ok", "eI", "eW", "eO"}
        /\ inner[k][4] >= 0 /\ inner[k][4] <= inner[k][2]
        /\ (IsErr(inner[k][3]) => inner[k][4] = 0)
  /\ \A k \in 1..(Len(inner) - 1) : inner[k][1] + inner[k][4] <= inner[k + 1][1]

AcceptedAt(inner, i) == \E k \in 1..Len(inner) : i - 1 >= inner[k][1] /\ i - 1 < inner[k][1] + inner[k][4]
AnyAccepted(inner) == \E k \in 1..Len(inner) : inner[k][4] > 0
HasErr(inner, kind) == \E k \in 1..Len(inner) : inner[k][3] = kind
HasZero(inner) == \E k \in 1..Len(inner) : inner[k][3] = "ok" /\ inner[k][4] = 0

\* judge the first n bytes of buf with the accepted positions as kept flags
JudgePrefix(j, buf, inner, n) ==
  JudgeRun(j, SubSeq(buf, 1, n), [i \in 1..n |-> AcceptedAt(inner, i)], 1)

\* CallOk(j, e) = <<ok, j'>>
CallOk(j, e) ==
  LET n     == Len(e.buf)
      inner == e.inner
      kind  == e.ret[1]
  IN IF ~InnerGeomOk(inner, n) THEN <<FALSE, j>>
     ELSE IF e.op \in {"write", "vectored"} THEN
        IF kind = "ok" THEN
           LET m == e.ret[2] IN
           IF m > n \/ (\E k \in 1..Len(inner) : IsErr(inner[k][3]))
              \/ (\E i \in (m + 1)..n : AcceptedAt(inner, i))
              \/ (m = 0 /\ n > 0 /\ ~HasZero(inner))          \* I5 progress
           THEN <<FALSE, j>>
           ELSE LET res == JudgePrefix(j, e.buf, inner, m) IN <<res[2] = 0, res[1]>>
        ELSE <<kind \in {"eI", "eW", "eO"} /\ HasErr(inner, kind) /\ (kind = "eI" => ~AnyAccepted(inner)), j>>
     ELSE \* write_all / write_fmt: all or error
        IF kind = "ok" THEN
           IF HasErr(inner, "eW") \/ HasErr(inner, "eO") \/ HasZero(inner) THEN <<FALSE, j>>
           ELSE LET res == JudgePrefix(j, e.buf, inner, n) IN <<res[2] = 0, res[1]>>
        \* ("eF", a formatter error, is what the fmt adapter reports when it has NO stored I/O error: with an inner error on record
        \*  it means the error's kind was lost)
        ELSE <<(kind \in {"eW", "eO"} /\ HasErr(inner, kind)) \/ (kind = "eZ" /\ HasZero(inner))
               \/ (kind = "eF" /\ ~(\E k \in 1..Len(inner) : IsErr(inner[k][3])) /\ ~HasZero(inner)), j>>

\* a call after which a protocol-following caller stops
Terminal(e) == e.ret[1] \in {"eW", "eO", "eZ", "eF"}

(* Known finding F5: `write` returns Err after its scan has advanced (escape prefix skipped or     *)
(* earlier pieces delivered) without restoring the scanner; a retry then duplicates or re-reads.   *)
(* A run is tainted by an Err(Interrupted) return of write that was not the clean case (failing    *)
(* inner write is the first one, starts at offset 0, scanner idle in Ground before and after the piece).                      *)
\* F5 has a shape: the pieces handed to the inner writer in one call are separated by dropped bytes,
\* all but the last were accepted completely (adjacent or partially accepted writes are something else)
F5Shape(inner) ==
  \A k \in 1..(Len(inner) - 1) : inner[k][4] = inner[k][2] /\ inner[k][1] + inner[k][2] < inner[k + 1][1]
Tainting(j, e) ==
  /\ e.op \in {"write", "vectored"} /\ e.ret[1] = "eI"
  /\ F5Shape(e.inner)
  /\ ~(/\ Len(e.inner) = 1 /\ e.inner[1][1] = 0 /\ j.r = RInit
       \* ... and the piece whose write failed does not end inside a multi-byte character
       /\ LET n == e.inner[1][2]
          IN JudgeRun(j, SubSeq(e.buf, 1, n), [i \in 1..n |-> TRUE], 1)[1].r = RInit)
=============================================================================
