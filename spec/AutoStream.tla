------------------------------ MODULE AutoStream ------------------------------
(***************************************************************************)
(* anstream::AutoStream (C08): the constructor fixes a mode; in Strip mode  *)
(* every call refines StripStream, in PassThrough mode it is the identity   *)
(* on bytes.  ColorChoice.Query (module ColorChoice, C09) decides the mode  *)
(* for the choice Auto.                                                     *)
(***************************************************************************)
EXTENDS StripStream

Choices == {"Auto", "AlwaysAnsi", "Always", "Never"}

\* mode in force; `auto` = decision of the environment query for this stream, `windows` = platform
ModeOf(choice, auto, windows) ==
  CASE choice = "Never"      -> "Strip"
    [] choice = "AlwaysAnsi" -> "PassThrough"
    [] choice = "Always"     -> IF windows THEN "Wincon" ELSE "PassThrough"
    [] choice = "Auto"       -> IF auto = "Never" THEN "Strip"
                                ELSE IF auto = "AlwaysAnsi" \/ ~windows THEN "PassThrough" ELSE "Wincon"

\* what current_choice() reports for a mode
Reported(mode) == CASE mode = "Strip" -> "Never" [] mode = "PassThrough" -> "AlwaysAnsi" [] mode = "Wincon" -> "Always"

\* identity on bytes: on Ok(n) exactly the first n bytes were accepted, in order
PassCallOk(e) ==
  LET n     == Len(e.buf)
      inner == e.inner
      kind  == e.ret[1]
  IN IF ~InnerGeomOk(inner, n) THEN FALSE
     ELSE IF e.op \in {"write", "vectored"} THEN
        IF kind = "ok" THEN
           /\ e.ret[2] <= n
           /\ (e.ret[2] = 0 /\ n > 0 => HasZero(inner))      \* progress (as StripStream I5)
           /\ ~(\E k \in 1..Len(inner) : IsErr(inner[k][3]))
           /\ \A i \in 1..n : AcceptedAt(inner, i) = (i <= e.ret[2])
        ELSE kind \in {"eI", "eW", "eO"} /\ HasErr(inner, kind) /\ (kind = "eI" => ~AnyAccepted(inner))
     ELSE
        IF kind = "ok" THEN
           /\ ~HasErr(inner, "eW") /\ ~HasErr(inner, "eO") /\ ~HasZero(inner)
           /\ \A i \in 1..n : AcceptedAt(inner, i)
        ELSE (kind \in {"eW", "eO"} /\ HasErr(inner, kind)) \/ (kind = "eZ" /\ HasZero(inner))
             \/ (kind = "eF" /\ ~(\E k \in 1..Len(inner) : IsErr(inner[k][3])) /\ ~HasZero(inner))

\* the bytes one call added to the inner writer, in order
RECURSIVE AcceptedBytes(_, _, _)
AcceptedBytes(buf, inner, k) ==
  IF k > Len(inner) THEN <<>>
  ELSE SubSeq(buf, inner[k][1] + 1, inner[k][1] + inner[k][4]) \o AcceptedBytes(buf, inner, k + 1)
=============================================================================
