------------------------------ MODULE ParamsInd ------------------------------
(***************************************************************************)
(* anstyle_parse::Params (params.rs) at its REAL size, for Apalache.         *)
(* The parser only calls push/extend when is_full() is false; clear on       *)
(* sequence entry.  Index safety of                                          *)
(*     subparams[len - current_subparams]   params[len]                      *)
(* and termination/bounds of ParamsIter::next                                 *)
(*     n = subparams[index]; &params[index .. index + n]; index += n          *)
(* follow from the inductive invariant IndInv (checked for ALL states        *)
(* satisfying it, not only reachable ones within a depth):                   *)
(*   0 <= cs <= len <= 32, and the closed groups tile 0 .. len - cs: `starts` *)
(*   (ghost) are the group starts, every start s has 1 <= sub[s] and          *)
(*   s + sub[s] is the next start or len - cs; the open group (cs > 0)        *)
(*   starts at len - cs with sub = cs.                                        *)
(***************************************************************************)
EXTENDS Integers, FiniteSets

Max == 32

VARIABLES
  \* @type: Int;
  len,
  \* @type: Int;
  cs,
  \* @type: Int -> Int;
  sub,
  \* @type: Set(Int);
  starts

vars == <<len, cs, sub, starts>>
Idx == 0..(Max - 1)

Init == len = 0 /\ cs = 0 /\ sub = [i \in Idx |-> 0] /\ starts = {}

Push ==
  /\ len < Max
  /\ sub' = [sub EXCEPT ![len - cs] = cs + 1]
  /\ starts' = starts \union {len - cs}
  /\ cs' = 0 /\ len' = len + 1
Extend ==
  /\ len < Max
  /\ sub' = [sub EXCEPT ![len - cs] = cs + 1]
  /\ starts' = starts
  /\ cs' = cs + 1 /\ len' = len + 1
Clear == len' = 0 /\ cs' = 0 /\ sub' = sub /\ starts' = {}
Next == Push \/ Extend \/ Clear

\* index safety of the array accesses in push/extend (what the unsafe-free but panicking indexing needs)
AccessSafe == (len < Max) => (len - cs >= 0 /\ len - cs < Max)

\* the iterator, started at a group start s < len, reads sub[s] >= 1 and a slice inside params[0..len]
IterSafe == \A s \in starts \union (IF cs > 0 THEN {len - cs} ELSE {}) :
               s >= 0 /\ s < len /\ sub[s] >= 1 /\ s + sub[s] <= len

IndInv ==
  /\ len \in 0..Max /\ cs \in 0..len
  /\ sub \in [Idx -> 0..Max]
  /\ starts \in SUBSET (0..(Max - 1))
  /\ \A s \in starts : s < len - cs /\ sub[s] >= 1 /\ (s + sub[s] \in starts \/ s + sub[s] = len - cs)
  /\ (len - cs > 0 => 0 \in starts)
  /\ (cs > 0 => sub[len - cs] = cs)
  \* between two consecutive starts there is no other start
  /\ \A s \in starts : \A t \in starts : (t > s /\ t < s + sub[s]) => FALSE

IndInit == IndInv
Safe == AccessSafe /\ IterSafe
=============================================================================
