-------------------------------- MODULE Convert --------------------------------
(***************************************************************************)
(* Conversions of an anstyle Style to other styling libraries (C16).        *)
(* The converted value is rendered BY THE TARGET LIBRARY ITSELF around a    *)
(* marker character; the bytes are run through the parser specification     *)
(* and the strict SGR reading; the rendition in force at the marker is      *)
(* compared with the style, restricted to what the library can express.     *)
(*                                                                         *)
(*  Expressible per library (at the minimum version its adapter declares):  *)
(*   ansi_term  effects BOLD DIMMED ITALIC UNDERLINE BLINK INVERT HIDDEN     *)
(*              STRIKETHROUGH; 8 hues + 256 + RGB; brightness of a          *)
(*              foreground is conveyed as bold, of a background not at all  *)
(*   crossterm  all 16 colours (spelled 38;5;n), 256, RGB in fg/bg/         *)
(*              underline colour; the eight effects above plus the four     *)
(*              styled underlines                                           *)
(*   owo_colors all 16, 256, RGB in fg/bg; the eight effects                *)
(*   termcolor  8 hues (no per-colour brightness), 256, RGB; BOLD DIMMED    *)
(*              ITALIC UNDERLINE                                            *)
(*   yansi      all 16, 256, RGB in fg/bg; the eight effects                *)
(* The eight base hues are never altered; indexed and RGB colours are exact.*)
(***************************************************************************)
EXTENDS Sgr
VP == INSTANCE VtParser WITH MaxParams <- 32, MaxInter <- 2, MaxOsc <- 16, ParamCap <- 65535, OscRawCap <- 0, Utf8On <- TRUE

ToSet(s) == {s[k] : k \in 1..Len(s)}
GrOf(st) == [fg |-> st.fg, bg |-> st.bg, ul |-> st.ul, eff |-> ToSet(st.eff)]

Eight == {"BOLD", "DIMMED", "ITALIC", "UNDERLINE", "BLINK", "INVERT", "HIDDEN", "STRIKETHROUGH"}
EffOf(lib) == CASE lib = "termcolor" -> {"BOLD", "DIMMED", "ITALIC", "UNDERLINE"}
                [] lib = "crossterm" -> Eight \cup ULS
                [] OTHER -> Eight
HasBright(lib) == lib \in {"crossterm", "owo_colors", "yansi"}
HasUl(lib) == lib = "crossterm"

\* palette identity Ansi(n) = Ansi256(n) for n < 16; hue only where the library has no brightness
NormCol(lib, c) ==
  IF c = None THEN None
  ELSE IF c[1] = "ansi" \/ (c[1] = "idx" /\ c[2] < 16) THEN <<"pal", IF HasBright(lib) THEN c[2] ELSE c[2] % 8>>
  ELSE c
\* but an INDEXED colour 8..15 given as such must stay exact even where named colours lose brightness
NormColExp(lib, c) ==
  IF c # None /\ c[1] = "idx" /\ c[2] < 16 /\ ~HasBright(lib) THEN <<"pal", c[2] % 8>> ELSE NormCol(lib, c)

\* the rendition in force when the marker (88) is printed; <<found, gr>>
\* a library without per-colour brightness may DROP the brightness of a palette colour (it cannot express it) but must not
\* ADD it: termcolor's single `intense` flag applies to both slots
PalIndex(c) == IF c # None /\ (c[1] = "ansi" \/ (c[1] = "idx" /\ c[2] < 16)) THEN c[2] ELSE 99
NotBrightened(got, want) == (PalIndex(got) # 99 /\ PalIndex(want) # 99 /\ PalIndex(got) >= 8) => PalIndex(want) >= 8

RECURSIVE AtMarker(_, _)
AtMarker(evs, gr) ==
  IF evs = <<>> THEN <<FALSE, gr>>
  ELSE LET e == Head(evs) IN
       IF e.k = "print" /\ e.c = 88 THEN <<TRUE, gr>>
       ELSE IF e.k = "csi" /\ e.b = 109 /\ e.i = <<>> /\ ~e.ign THEN AtMarker(Tail(evs), ApplyStrict(gr, e.p))
       ELSE AtMarker(Tail(evs), gr)

\* a rendition anstyle has no name for: rapidly blinking (6) is not slowly blinking (5, anstyle's BLINK), fonts 10..20,
\* fraktur, framed/encircled/overlined 51..53 - a conversion must not invent one
Foreign(v) == v = 6 \/ (v >= 10 /\ v <= 20) \/ (v >= 51 /\ v <= 53)
RECURSIVE UsesForeign(_)
UsesForeign(evs) ==
  IF evs = <<>> THEN FALSE
  ELSE LET e == Head(evs) IN
       IF e.k = "print" /\ e.c = 88 THEN FALSE
       \* whole tokens only: a 6 that is a colour component (38;5;6, 48;2;6;6;6) is not a code
       ELSE IF e.k = "csi" /\ e.b = 109 /\ e.i = <<>> /\ ~e.ign
               /\ (\E k \in 1..Len(Tokens(e.p)) : Tokens(e.p)[k][1] = "code" /\ Foreign(Tokens(e.p)[k][2])) THEN TRUE
       ELSE UsesForeign(Tail(evs))

RenderedOk(lib, st, bytes) ==
  LET want == GrOf(st)
      m    == AtMarker(VP!Run(VP!Init0, bytes)[2], Default)
      got  == m[2]
      fgBright == want.fg # None /\ want.fg[1] = "ansi" /\ want.fg[2] >= 8
  IN /\ m[1]
     /\ ~UsesForeign(VP!Run(VP!Init0, bytes)[2])
     /\ NormCol(lib, got.fg) = NormColExp(lib, want.fg) /\ NotBrightened(got.fg, want.fg)
     /\ NormCol(lib, got.bg) = NormColExp(lib, want.bg) /\ NotBrightened(got.bg, want.bg)
     /\ (HasUl(lib) => NormCol(lib, got.ul) = NormColExp(lib, want.ul))
     /\ IF lib = "ansi_term"
        THEN /\ (got.eff \cap (EffOf(lib) \ {"BOLD"})) = (want.eff \cap (EffOf(lib) \ {"BOLD"}))
             /\ ("BOLD" \in want.eff => "BOLD" \in got.eff)
             /\ (("BOLD" \in got.eff /\ "BOLD" \notin want.eff) => fgBright)     \* only a bright foreground may add bold
             \* ... and a bright foreground IS conveyed: as bold (what the adapter does) or as the exact bright palette entry
             \* (what the library could also express) - whatever other effects the style carries
             /\ (fgBright => ("BOLD" \in got.eff \/ PalIndex(got.fg) \in 8..15))
        ELSE (got.eff \cap EffOf(lib)) = (want.eff \cap EffOf(lib))
     /\ got.eff \subseteq (want.eff \cup (IF lib = "ansi_term" THEN {"BOLD"} ELSE {}))      \* nothing invented

\* syntect -> anstyle: RGB kept (alpha ignored), bold/italic/underline kept, nothing else
FromSyntectOk(src, st) ==
  LET g == GrOf(st) IN
  /\ g.fg = <<"rgb", src.fg[1], src.fg[2], src.fg[3]>> /\ g.bg = <<"rgb", src.bg[1], src.bg[2], src.bg[3]>> /\ g.ul = None
  /\ g.eff = (IF src.bold THEN {"BOLD"} ELSE {}) \cup (IF src.italic THEN {"ITALIC"} ELSE {}) \cup (IF src.underline THEN {"UNDERLINE"} ELSE {})
=============================================================================
