--------------------------------- MODULE Lossy ---------------------------------
(***************************************************************************)
(* Lossy colour conversion (anstyle-lossy, C10).                            *)
(*  - the 240 fixed colours of the 256-colour palette: a 6x6x6 cube with    *)
(*    levels 0,95,135,175,215,255 (indices 16..231) and a 24-step grey ramp *)
(*    8,18,..,238 (232..255); indices 0..15 are the user's 16-colour palette*)
(*  - distance: the red-mean weighted metric of compuphase.com/cmetric.htm  *)
(*      dC^2 = (2 + rm/256) dR^2 + 4 dG^2 + (2 + (255 - rm)/256) dB^2,       *)
(*      rm = (R1 + R2)/2                                                     *)
(*    compared without the square root and scaled by 512 to stay integral:  *)
(*      (1024 + R1 + R2) dR^2 + 2048 dG^2 + (1534 - R1 - R2) dB^2            *)
(*  - nearest = a candidate of minimal distance, ties to the lowest index   *)
(***************************************************************************)
EXTENDS Naturals, Sequences

Lv == <<0, 95, 135, 175, 215, 255>>
Xterm(i) == IF i < 232 THEN LET k == i - 16 IN <<Lv[(k \div 36) + 1], Lv[((k \div 6) % 6) + 1], Lv[(k % 6) + 1]>>
            ELSE LET g == 8 + 10 * (i - 232) IN <<g, g, g>>
Sq(x) == x * x
AbsD(a, b) == IF a > b THEN a - b ELSE b - a
Dist(c, p) == LET rs == c[1] + p[1] IN
   (1024 + rs) * Sq(AbsD(c[1], p[1])) + 2048 * Sq(AbsD(c[2], p[2])) + (1534 - rs) * Sq(AbsD(c[3], p[3]))

\* idx is the nearest candidate among cand[lo..hi] (a function index -> rgb), ties to the lowest index
IsNearest(cand, lo, hi, c, idx) ==
  /\ idx >= lo /\ idx <= hi
  /\ LET d == Dist(c, cand[idx]) IN
     /\ \A j \in lo..hi : Dist(c, cand[j]) >= d
     /\ \A j \in lo..(idx - 1) : Dist(c, cand[j]) > d
XT == [i \in 16..255 |-> Xterm(i)]

RgbToXtermOk(c, r)      == IsNearest(XT, 16, 255, c, r)
\* pal: sequence of 16 rgb triples; result k = 0..15
RgbToAnsiOk(c, pal, k)  == IsNearest([i \in 0..15 |-> pal[i + 1]], 0, 15, c, k)
XtermToRgb(i, pal)      == IF i < 16 THEN pal[i + 1] ELSE Xterm(i)
XtermToAnsiOk(i, pal, k) == IF i < 16 THEN k = i ELSE RgbToAnsiOk(Xterm(i), pal, k)
AnsiToRgb(k, pal)       == pal[k + 1]
\* colours: <<"ansi",k>> | <<"idx",i>> | <<"rgb",r,g,b>>
ColorToRgbOk(col, pal, r)   == CASE col[1] = "ansi" -> r = pal[col[2] + 1] [] col[1] = "idx" -> r = XtermToRgb(col[2], pal)
                                 [] col[1] = "rgb" -> r = <<col[2], col[3], col[4]>>
ColorToXtermOk(col, r)      == CASE col[1] = "ansi" -> r = col[2] [] col[1] = "idx" -> r = col[2]
                                 [] col[1] = "rgb" -> RgbToXtermOk(<<col[2], col[3], col[4]>>, r)
ColorToAnsiOk(col, pal, k)  == CASE col[1] = "ansi" -> k = col[2] [] col[1] = "idx" -> XtermToAnsiOk(col[2], pal, k)
                                 [] col[1] = "rgb" -> RgbToAnsiOk(<<col[2], col[3], col[4]>>, pal, k)
=============================================================================
