--------------------------- MODULE PrintLockProof ---------------------------
(***************************************************************************)
(* TLAPS proof that the lock-per-call design of PrintLock never interleaves *)
(* the fragments of two calls - for ANY number of threads, calls and        *)
(* fragments (TLC checks 3 x 2 x 3).  PerFragment = FALSE is the design the *)
(* code implements; with PerFragment = TRUE TLC finds the interleaving.     *)
(***************************************************************************)
EXTENDS PrintLock, TLAPS

ASSUME ConstAssump == /\ 0 \notin Threads /\ Frags \in Nat \ {0} /\ Calls \in Nat /\ PerFragment = FALSE

Rec3 == Threads \X Nat \X Nat
TypeOK == /\ holder \in Threads \cup {0}
          /\ pc \in [Threads -> Nat \X Nat \X {"idle", "locked"}]
          /\ out \in Seq(Rec3)

\* the end of `out` is a record boundary
AtBoundary == out = <<>> \/ out[Len(out)][3] = Frags

LockInv ==
  /\ \A t \in Threads : (pc[t][3] = "locked") <=> (holder = t)
  /\ \A t \in Threads : pc[t][2] \in 1..Frags
  /\ \A t \in Threads : pc[t][3] = "idle" => pc[t][2] = 1
  /\ holder = 0 => AtBoundary
  /\ holder # 0 => IF pc[holder][2] = 1 THEN AtBoundary
                   ELSE out # <<>> /\ out[Len(out)] = <<holder, pc[holder][1], pc[holder][2] - 1>>

Inv == TypeOK /\ LockInv /\ NoInterleave

LEMMA InitInv == Init => Inv
  BY ConstAssump DEF Init, Inv, TypeOK, LockInv, NoInterleave, AtBoundary, Rec3

LEMMA AcquireInv == ASSUME Inv, NEW t \in Threads, Acquire(t) PROVE Inv'
  <1> USE ConstAssump DEF Inv, TypeOK, LockInv, AtBoundary, Rec3
  <1>1. TypeOK'
    BY DEF Acquire
  <1>2. NoInterleave'
    BY DEF Acquire, NoInterleave
  <1>3. LockInv'
    BY DEF Acquire
  <1> QED BY <1>1, <1>2, <1>3

LEMMA WriteInv == ASSUME Inv, NEW t \in Threads, WriteFragment(t) PROVE Inv'
  <1> USE ConstAssump DEF Inv, TypeOK, LockInv, AtBoundary, Rec3
  <1> DEFINE c == pc[t][1]
             f == pc[t][2]
             e == <<t, c, f>>
  <1>0. /\ holder = t /\ pc[t][3] = "locked" /\ out' = Append(out, e) /\ e \in Rec3 /\ f \in 1..Frags /\ c \in Nat
    BY DEF WriteFragment
  <1>a. /\ Len(out') = Len(out) + 1 /\ out'[Len(out) + 1] = e
        /\ \A i \in 1..Len(out) : out'[i] = out[i]
    BY <1>0
  <1>1. TypeOK'
    <2>1. CASE f = Frags
      BY <1>0, <2>1 DEF WriteFragment
    <2>2. CASE f # Frags
      BY <1>0, <2>2 DEF WriteFragment
    <2> QED BY <2>1, <2>2
  <1>2. NoInterleave'
    <2> SUFFICES ASSUME NEW i \in 1..Len(out'), out'[i][3] > 1
                 PROVE  i > 1 /\ out'[i - 1] = <<out'[i][1], out'[i][2], out'[i][3] - 1>>
      BY DEF NoInterleave
    <2>1. CASE i <= Len(out)
      BY <2>1, <1>a DEF NoInterleave
    <2>2. CASE i = Len(out) + 1
      <3>1. f > 1 /\ out'[i] = e
        BY <2>2, <1>a
      <3>2. out # <<>> /\ out[Len(out)] = <<t, c, f - 1>>
        BY <3>1, <1>0
      <3>3. Len(out) >= 1
        BY <3>2
      <3> QED BY <2>2, <3>1, <3>2, <3>3, <1>a
    <2> QED BY <2>1, <2>2, <1>a
  <1>3. LockInv'
    <2>1. CASE f = Frags
      <3>1. pc' = [pc EXCEPT ![t] = <<c + 1, 1, "idle">>] /\ holder' = 0
        BY <1>0, <2>1 DEF WriteFragment
      <3>2. out'[Len(out')][3] = Frags
        BY <1>a, <2>1
      <3> QED BY <3>1, <3>2, <1>0, <1>a
    <2>2. CASE f # Frags
      <3>1. pc' = [pc EXCEPT ![t][2] = f + 1] /\ holder' = holder
        BY <1>0, <2>2 DEF WriteFragment
      <3>2. pc'[t][2] = f + 1 /\ pc'[t][1] = c /\ pc'[t][3] = "locked" /\ f + 1 \in 1..Frags /\ f + 1 # 1
        BY <3>1, <1>0, <2>2
      <3>3. out' # <<>> /\ out'[Len(out')] = <<t, c, (f + 1) - 1>>
        BY <1>a, <1>0
      <3> QED BY <3>1, <3>2, <3>3, <1>0
    <2> QED BY <2>1, <2>2
  <1> QED BY <1>1, <1>2, <1>3

THEOREM Safety == Spec => []NoInterleave
  <1>1. Inv /\ [Next]_vars => Inv'
    <2> SUFFICES ASSUME Inv, [Next]_vars PROVE Inv'
      OBVIOUS
    <2>1. CASE UNCHANGED vars
      BY <2>1 DEF vars, Inv, TypeOK, LockInv, NoInterleave, AtBoundary
    <2>2. CASE Next
      BY <2>2, AcquireInv, WriteInv DEF Next
    <2> QED BY <2>1, <2>2
  <1>2. Inv => NoInterleave
    BY DEF Inv
  <1> QED BY InitInv, <1>1, <1>2, PTL DEF Spec
=============================================================================
