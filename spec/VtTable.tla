------------------------------ MODULE VtTable ------------------------------
(***************************************************************************)
(* Paul Williams' DEC-compatible ANSI parser (vt100.net/emu/dec_ansi_parser)*)
(* as a transition relation Arc(state, byte) = <<next, action>>.            *)
(*                                                                         *)
(* Written from the published state diagram, NOT from table.rs/codegen.rs. *)
(* "-" as next state means "stay" (the diagram's events inside a state);    *)
(* action "None" means no action on the arc.                                *)
(*                                                                         *)
(* The crate documents three deviations; each is a separately named clause *)
(* so that the places where this reading departs from Williams are explicit:*)
(*   Dev7Bit   - 8-bit C1 controls are not recognised as sequence           *)
(*               introducers: in Ground 0x80-0x8f,0x91-0x9a,0x9c are        *)
(*               executed, elsewhere 8-bit bytes are dropped, except 0x9c   *)
(*               (ST) which still terminates DCS/SOS/PM/APC strings.         *)
(*   DevBelOsc - BEL (0x07) terminates an OSC string, 0x9c does not, and    *)
(*               every byte >= 0x20 (also >= 0x80) is OSC payload.           *)
(*   DevUtf8   - in Ground 0xc2-0xf4 begins a UTF-8 character (out-of-band  *)
(*               decoder, module Utf8).                                      *)
(*   DevSubParam - ':' (0x3a) is a sub-parameter separator in CSI/DCS       *)
(*               parameters (Williams sends it to csi_ignore).              *)
(***************************************************************************)
EXTENDS Naturals

InR(b, lo, hi) == b >= lo /\ b <= hi

States == {"Ground", "Escape", "EscapeIntermediate", "CsiEntry", "CsiParam",
           "CsiIntermediate", "CsiIgnore", "DcsEntry", "DcsParam",
           "DcsIntermediate", "DcsPassthrough", "DcsIgnore", "OscString",
           "SosPmApcString", "Utf8"}

\* C0 controls executed "in place" in most states (all but CAN, SUB, ESC)
C0Exec(b) == InR(b, 0, 23) \/ b = 25 \/ InR(b, 28, 31)

\* --- deviations as named predicates ---------------------------------------
Dev7BitGroundExec(b) == InR(b, 128, 143) \/ InR(b, 145, 154) \/ b = 156
DevUtf8Lead(b)       == InR(b, 194, 244)
DevBelOscEnd(b)      == b = 7
DevSubParam(b)       == b = 58

\* --- "anywhere" arcs: CAN, SUB, ESC ----------------------------------------
AnywhereArc(b) ==
  IF b = 24 \/ b = 26 THEN <<"Ground", "Execute">>
  ELSE IF b = 27 THEN <<"Escape", "None">>
  ELSE <<"-", "-">>

StateArc(s, b) ==
  CASE s = "Ground" ->
         IF C0Exec(b) THEN <<"-", "Execute">>
         ELSE IF InR(b, 32, 127) THEN <<"-", "Print">>
         ELSE IF Dev7BitGroundExec(b) THEN <<"-", "Execute">>
         ELSE IF DevUtf8Lead(b) THEN <<"Utf8", "BeginUtf8">>
         ELSE <<"-", "None">>
    [] s = "Escape" ->
         IF C0Exec(b) THEN <<"-", "Execute">>
         ELSE IF b = 127 THEN <<"-", "Ignore">>
         ELSE IF InR(b, 32, 47) THEN <<"EscapeIntermediate", "Collect">>
         ELSE IF b = 80 THEN <<"DcsEntry", "None">>           \* P
         ELSE IF b = 91 THEN <<"CsiEntry", "None">>           \* [
         ELSE IF b = 93 THEN <<"OscString", "None">>          \* ]
         ELSE IF b = 88 \/ b = 94 \/ b = 95 THEN <<"SosPmApcString", "None">>  \* X ^ _
         ELSE IF InR(b, 48, 126) THEN <<"Ground", "EscDispatch">>
         ELSE <<"-", "None">>
    [] s = "EscapeIntermediate" ->
         IF C0Exec(b) THEN <<"-", "Execute">>
         ELSE IF InR(b, 32, 47) THEN <<"-", "Collect">>
         ELSE IF b = 127 THEN <<"-", "Ignore">>
         ELSE IF InR(b, 48, 126) THEN <<"Ground", "EscDispatch">>
         ELSE <<"-", "None">>
    [] s = "CsiEntry" ->
         IF C0Exec(b) THEN <<"-", "Execute">>
         ELSE IF b = 127 THEN <<"-", "Ignore">>
         ELSE IF InR(b, 32, 47) THEN <<"CsiIntermediate", "Collect">>
         ELSE IF InR(b, 48, 57) \/ b = 59 \/ DevSubParam(b) THEN <<"CsiParam", "Param">>
         ELSE IF InR(b, 60, 63) THEN <<"CsiParam", "Collect">>
         ELSE IF InR(b, 64, 126) THEN <<"Ground", "CsiDispatch">>
         ELSE <<"-", "None">>
    [] s = "CsiParam" ->
         IF C0Exec(b) THEN <<"-", "Execute">>
         ELSE IF InR(b, 48, 57) \/ b = 59 \/ DevSubParam(b) THEN <<"-", "Param">>
         ELSE IF b = 127 THEN <<"-", "Ignore">>
         ELSE IF InR(b, 60, 63) THEN <<"CsiIgnore", "None">>
         ELSE IF InR(b, 32, 47) THEN <<"CsiIntermediate", "Collect">>
         ELSE IF InR(b, 64, 126) THEN <<"Ground", "CsiDispatch">>
         ELSE <<"-", "None">>
    [] s = "CsiIntermediate" ->
         IF C0Exec(b) THEN <<"-", "Execute">>
         ELSE IF InR(b, 32, 47) THEN <<"-", "Collect">>
         ELSE IF b = 127 THEN <<"-", "Ignore">>
         ELSE IF InR(b, 48, 63) THEN <<"CsiIgnore", "None">>
         ELSE IF InR(b, 64, 126) THEN <<"Ground", "CsiDispatch">>
         ELSE <<"-", "None">>
    [] s = "CsiIgnore" ->
         IF C0Exec(b) THEN <<"-", "Execute">>
         ELSE IF InR(b, 32, 63) \/ b = 127 THEN <<"-", "Ignore">>
         ELSE IF InR(b, 64, 126) THEN <<"Ground", "None">>
         ELSE <<"-", "None">>
    [] s = "DcsEntry" ->
         IF C0Exec(b) \/ b = 127 THEN <<"-", "Ignore">>
         ELSE IF InR(b, 32, 47) THEN <<"DcsIntermediate", "Collect">>
         ELSE IF InR(b, 48, 57) \/ b = 59 \/ DevSubParam(b) THEN <<"DcsParam", "Param">>
         ELSE IF InR(b, 60, 63) THEN <<"DcsParam", "Collect">>
         ELSE IF InR(b, 64, 126) THEN <<"DcsPassthrough", "None">>
         ELSE <<"-", "None">>
    [] s = "DcsParam" ->
         IF C0Exec(b) \/ b = 127 THEN <<"-", "Ignore">>
         ELSE IF InR(b, 48, 57) \/ b = 59 \/ DevSubParam(b) THEN <<"-", "Param">>
         ELSE IF InR(b, 60, 63) THEN <<"DcsIgnore", "None">>
         ELSE IF InR(b, 32, 47) THEN <<"DcsIntermediate", "Collect">>
         ELSE IF InR(b, 64, 126) THEN <<"DcsPassthrough", "None">>
         ELSE <<"-", "None">>
    [] s = "DcsIntermediate" ->
         IF C0Exec(b) \/ b = 127 THEN <<"-", "Ignore">>
         ELSE IF InR(b, 32, 47) THEN <<"-", "Collect">>
         ELSE IF InR(b, 48, 63) THEN <<"DcsIgnore", "None">>
         ELSE IF InR(b, 64, 126) THEN <<"DcsPassthrough", "None">>
         ELSE <<"-", "None">>
    [] s = "DcsPassthrough" ->
         IF C0Exec(b) \/ InR(b, 32, 126) THEN <<"-", "Put">>
         ELSE IF b = 127 THEN <<"-", "Ignore">>
         ELSE IF b = 156 THEN <<"Ground", "None">>            \* ST
         ELSE <<"-", "None">>
    [] s = "DcsIgnore" ->
         IF C0Exec(b) \/ InR(b, 32, 127) THEN <<"-", "Ignore">>
         ELSE IF b = 156 THEN <<"Ground", "None">>
         ELSE <<"-", "None">>
    [] s = "SosPmApcString" ->
         IF C0Exec(b) \/ InR(b, 32, 127) THEN <<"-", "Ignore">>
         ELSE IF b = 156 THEN <<"Ground", "None">>
         ELSE <<"-", "None">>
    [] s = "OscString" ->
         IF DevBelOscEnd(b) THEN <<"Ground", "None">>
         ELSE IF C0Exec(b) THEN <<"-", "Ignore">>
         ELSE IF b >= 32 THEN <<"-", "OscPut">>
         ELSE <<"-", "None">>
    [] s = "Utf8" -> <<"-", "None">>   \* never consulted: the decoder runs out of band

Arc(s, b) == LET a == AnywhereArc(b) IN IF a[1] # "-" THEN a ELSE StateArc(s, b)

\* Actions with no observable effect; the table distinguishes them, callbacks cannot.
SilentAction(a) == a \in {"None", "Ignore"}

\* One representative per byte class distinguished by Arc (computed, not hand-picked):
\* two bytes are equivalent iff every state maps them to the same arc.
SameClass(b1, b2) == \A s \in States \ {"Utf8"} : Arc(s, b1) = Arc(s, b2)
ClassReps == {b \in 0..255 : \A c \in 0..(b-1) : ~SameClass(b, c)}
=============================================================================
