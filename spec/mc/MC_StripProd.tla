---------------------------- MODULE MC_StripProd ----------------------------
(* Product of the reference visibility (Strip!Judge) with the implementation-  *)
(* shaped two-phase scanner, over the full byte-class alphabet, with a chunk   *)
(* boundary allowed between any two bytes.  The product is a finite automaton, *)
(* so TLC decides - for inputs of ANY length and ANY chunking - that the       *)
(* scanner design keeps exactly the visible bytes (C01) and that the result    *)
(* does not depend on the chunking (C03: the judge never looks at chunk        *)
(* boundaries, so agreement with it for every chunking is chunk-independence). *)
(* Api = "bytes": all byte strings; Api = "str": valid UTF-8 only, chunk       *)
(* boundaries only between characters.                                         *)
EXTENDS Strip, TLC
CONSTANT Api
Alphabet == ClassReps \cup {9, 10, 12, 13, 109, 49, 58, 59, 92, 143, 159, 160, 191, 192, 193,
                            194, 223, 224, 225, 237, 238, 240, 241, 244, 245, 255}
VARIABLES j, i, v, ok, last
vars == <<j, i, v, ok, last>>

Init == /\ j = JInit /\ v = U8Idle /\ ok = TRUE /\ last = <<>>
        /\ i = IF Api = "bytes" THEN SBInit ELSE SSInit

\* raw UTF-8 validity of the byte stream (text API precondition)
ValidNext(b) == IF v.need = 0 THEN b < 128 \/ U8IsLead(b) ELSE b >= v.lo /\ b <= v.hi
VStep(b) == IF v.need = 0 THEN (IF U8IsLead(b) THEN NoCp(U8Begin(b)) ELSE U8Idle)
            ELSE LET c == U8Cont(v, b) IN IF c[2] = "more" THEN NoCp(c[1]) ELSE U8Idle

Feed(b) ==
  /\ Api = "str" => ValidNext(b)
  /\ LET s == IF Api = "bytes" THEN ScanBytes(i, b) ELSE ScanStr(i, b)
         q == Judge(j, b, s[2])
     IN /\ i' = s[1] /\ j' = q[1] /\ ok' = q[2]
        /\ last' = <<b, RefStep(j.r, b)[2], s[2]>>
  /\ v' = IF Api = "str" THEN VStep(b) ELSE v

EndChunk ==
  /\ Api = "str" => v.need = 0
  /\ i' = IF Api = "bytes" THEN SBEndChunk(i) ELSE SSEndChunk(i)
  /\ UNCHANGED <<j, v, ok, last>>

Next == ok /\ ((\E b \in Alphabet : Feed(b)) \/ EndChunk)
Spec == Init /\ [][Next]_vars
Agree == ok
\* the text scanner never cuts a character: a kept continuation byte follows a kept byte
View == <<j, i, v, ok>>
=============================================================================
