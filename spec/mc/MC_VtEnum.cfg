SPECIFICATION Spec
INVARIANT Leaf
INVARIANT Limits
INVARIANT AlphabetInfo
CHECK_DEADLOCK FALSE
CONSTANTS
 N = 3
 First = 256
 MaxParams = 32
 MaxInter = 2
 MaxOsc = 16
 ParamCap = 65535
 OscRawCap = 0
 Utf8On = TRUE
