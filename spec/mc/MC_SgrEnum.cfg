SPECIFICATION Spec
INVARIANT Emit
CHECK_DEADLOCK FALSE
CONSTANTS
 Groups = 2
 UseFull = TRUE
 AcceptIntermediatesIgnored = FALSE
