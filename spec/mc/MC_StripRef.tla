----------------------------- MODULE MC_StripRef -----------------------------
(* Links the Strip reference to the parser specification: along every byte     *)
(* string (history hidden, depth-bounded) the label RefStep assigns to a byte  *)
(* is the one derived from the callbacks VtParser!Step emits for it, and the   *)
(* reference state is the projection of the parser state.                      *)
EXTENDS Strip, TLC
CONSTANT Depth
VP == INSTANCE VtParser WITH MaxParams <- 4, MaxInter <- 2, MaxOsc <- 2, ParamCap <- 99, OscRawCap <- 0, Utf8On <- TRUE
Alphabet == {0, 7, 9, 10, 24, 27, 32, 48, 58, 59, 60, 64, 80, 88, 91, 92, 93, 109, 127, 128, 156, 160, 194, 224, 237, 240, 244, 245}
VARIABLES ps, r, ok, n
vars == <<ps, r, ok, n>>
Init == ps = VP!Init0 /\ r = RInit /\ ok = TRUE /\ n = 0
LabelFromEvents(p, b, evs) ==
  IF p.st = "Utf8" THEN
     IF evs = <<>> THEN "pend" ELSE IF evs[1].c = 65533 /\ ~(b >= p.u8.lo /\ b <= p.u8.hi) THEN "Mdone" ELSE "Pdone"
  ELSE IF evs = <<>> THEN (IF Arc(p.st, b)[2] = "BeginUtf8" THEN "pend" ELSE "X")
  ELSE LET e == evs[Len(evs)] IN
       IF e.k = "print" /\ b # 127 THEN "P"
       ELSE IF e.k = "exec" /\ IsWsCtl(b) THEN "W" ELSE "X"
Next == /\ n < Depth /\ ok
        /\ \E b \in Alphabet :
             LET s == VP!Step(ps, b)
                 t == RefStep(r, b)
             IN /\ ps' = s[1] /\ r' = t[1]
                /\ ok' = (t[2] = LabelFromEvents(ps, b, s[2]) /\ t[1].st = s[1].st
                          /\ t[1].u8 = NoCp(s[1].u8))
        /\ n' = n + 1
Spec == Init /\ [][Next]_vars
Projection == ok
View == <<ps, r, ok, n>>
=============================================================================
