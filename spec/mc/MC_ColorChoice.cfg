SPECIFICATION Spec
INVARIANT T1
INVARIANT T2
INVARIANT T3
INVARIANT T4
INVARIANT T5
INVARIANT T6
INVARIANT Emit
CHECK_DEADLOCK FALSE
CONSTANTS
 D_RunGroundRow = FALSE
 D_StrReset = FALSE
 D_Utf8CtlLeak = FALSE
 AcceptCtlLeak = FALSE
 AcceptErrAdvance = FALSE
