SPECIFICATION Spec
INVARIANT Agree
VIEW View
CHECK_DEADLOCK FALSE
CONSTANTS
 Api = "bytes"
 D_RunGroundRow = FALSE
 D_StrReset = FALSE
 D_Utf8CtlLeak = FALSE
 AcceptCtlLeak = FALSE
