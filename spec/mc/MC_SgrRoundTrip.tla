--------------------------- MODULE MC_SgrRoundTrip ---------------------------
(* Self-consistency of the SGR model (C05 S): for every rendition of a bounded   *)
(* domain - all 4096 effect sets x a colour lattice - interpreting the           *)
(* specification's own rendering (one sequence per attribute, declaration        *)
(* order) from the default rendition gives the rendition back; so the twelve     *)
(* effect codes and the colour forms are distinguishable and order-independent.  *)
(* Also: combining all parameter lists into ONE sequence has the same effect     *)
(* ("attributes combined in one sequence = separate sequences", C07).            *)
EXTENDS Sgr, TLC
CONSTANT Big
Fg == IF Big THEN {None, <<"ansi", 0>>, <<"ansi", 7>>, <<"ansi", 9>>, <<"ansi", 15>>, <<"idx", 5>>, <<"idx", 200>>, <<"rgb", 1, 2, 3>>}
      ELSE {None, <<"ansi", 9>>, <<"idx", 200>>, <<"rgb", 1, 2, 3>>}
Bg == IF Big THEN {None, <<"ansi", 3>>, <<"ansi", 12>>, <<"idx", 16>>, <<"rgb", 255, 0, 128>>} ELSE {None, <<"ansi", 12>>, <<"rgb", 255, 0, 128>>}
Ul == IF Big THEN {None, <<"ansi", 4>>, <<"idx", 255>>, <<"rgb", 9, 99, 199>>} ELSE {None, <<"ansi", 4>>}
VARIABLE gr
Init == gr \in [fg : Fg, bg : Bg, ul : Ul, eff : SUBSET Effects]
Next == UNCHANGED gr
Spec == Init /\ [][Next]_gr
RECURSIVE Flatten(_)
Flatten(seqs) == IF seqs = <<>> THEN <<>> ELSE Head(seqs) \o Flatten(Tail(seqs))
RoundTrip == ApplySeqs(Default, RenderSpec(gr)) = NormUl(gr)
Combined == Apply(Default, Flatten(RenderSpec(gr)), "strict") = {NormUl(gr)}
\* the lenient reading always admits what the strict terminal reading (kinds exclusive) would give
LenientCoversStrict == NormUl(gr) \in Apply(Default, Flatten(RenderSpec(gr)), "lenient")
=============================================================================
