---------------------------- MODULE MC_VtCancel -----------------------------
(* "CAN and SUB abandon whatever is in progress from every state, after which  *)
(* the rest of the stream is parsed as by a fresh parser" (C02):               *)
(* two copies in lockstep - pa, which went through an arbitrary history and    *)
(* then CAN/SUB, and pb, a fresh parser - must emit identical events for every *)
(* continuation.                                                               *)
EXTENDS VtParser, TLC
CONSTANTS HistDepth, LockDepth
Alphabet == {0, 7, 10, 24, 27, 32, 48, 58, 59, 60, 64, 80, 88, 91, 92, 93, 109, 127, 128, 156, 194, 160}
VARIABLES pa, pb, phase, n, same
vars == <<pa, pb, phase, n, same>>
Init == pa = Init0 /\ pb = Init0 /\ phase = "hist" /\ n = 0 /\ same = TRUE
Hist == /\ phase = "hist" /\ n < HistDepth
        /\ \E b \in Alphabet : pa' = Step(pa, b)[1]
        /\ n' = n + 1 /\ UNCHANGED <<pb, phase, same>>
Cancel == /\ phase = "hist"
          /\ \E c \in {24, 26} : pa' = Step(pa, c)[1]
          /\ phase' = "lock" /\ n' = 0 /\ UNCHANGED <<pb, same>>
Lock == /\ phase = "lock" /\ n < LockDepth
        /\ \E b \in Alphabet :
             LET ra == Step(pa, b)
                 rb == Step(pb, b)
             IN pa' = ra[1] /\ pb' = rb[1] /\ same' = (ra[2] = rb[2])
        /\ n' = n + 1 /\ UNCHANGED phase
Next == Hist \/ Cancel \/ Lock
Spec == Init /\ [][Next]_vars
AsFresh == same
=============================================================================
