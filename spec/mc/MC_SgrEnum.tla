------------------------------ MODULE MC_SgrEnum ------------------------------
(* C07 mechanism A: every SGR sequence of up to Groups attribute groups over a    *)
(* representative code set (table generated once; spellings as bytes), in two     *)
(* spellings - all groups combined in ONE `CSI g1;g2;.. m` and one sequence per    *)
(* group - each followed by the marker text "X".  For every input TLC prints the   *)
(* set of styles the lenient SGR reading allows for the marker; both spellings     *)
(* must have the same set (combined = separate), and the extractor's answer must   *)
(* be in it, for every chunking of the input.                                      *)
EXTENDS WinconExtract, TLC, Json
CONSTANTS Groups, UseFull
Full == <<
  <<>>,   \* (empty)
  <<48>>,   \* 0
  <<49>>,   \* 1
  <<50>>,   \* 2
  <<51>>,   \* 3
  <<52>>,   \* 4
  <<55>>,   \* 7
  <<56>>,   \* 8
  <<57>>,   \* 9
  <<50, 49>>,   \* 21
  <<53>>,   \* 5
  <<50, 50>>,   \* 22
  <<50, 52>>,   \* 24
  <<51, 48>>,   \* 30
  <<51, 55>>,   \* 37
  <<51, 57>>,   \* 39
  <<52, 48>>,   \* 40
  <<52, 55>>,   \* 47
  <<52, 57>>,   \* 49
  <<57, 48>>,   \* 90
  <<57, 55>>,   \* 97
  <<49, 48, 48>>,   \* 100
  <<49, 48, 55>>,   \* 107
  <<49, 48>>,   \* 10
  <<53, 57>>,   \* 59
  <<57, 57>>,   \* 99
  <<48, 49>>,   \* 01
  <<52, 58, 48>>,   \* 4:0
  <<52, 58, 49>>,   \* 4:1
  <<52, 58, 50>>,   \* 4:2
  <<52, 58, 51>>,   \* 4:3
  <<52, 58, 53>>,   \* 4:5
  <<51, 56, 59, 53, 59, 49>>,   \* 38;5;1
  <<51, 56, 58, 53, 58, 49>>,   \* 38:5:1
  <<51, 56, 59, 53, 59, 50, 48, 48>>,   \* 38;5;200
  <<52, 56, 59, 53, 59, 49, 54>>,   \* 48;5;16
  <<52, 56, 58, 53, 58, 50, 53, 53>>,   \* 48:5:255
  <<53, 56, 59, 53, 59, 57>>,   \* 58;5;9
  <<53, 56, 58, 53, 58, 51>>,   \* 58:5:3
  <<51, 56, 59, 50, 59, 49, 59, 50, 59, 51>>,   \* 38;2;1;2;3
  <<51, 56, 58, 50, 58, 49, 58, 50, 58, 51>>,   \* 38:2:1:2:3
  <<52, 56, 59, 50, 59, 48, 59, 49, 50, 56, 59, 50, 53, 53>>,   \* 48;2;0;128;255
  <<53, 56, 58, 50, 58, 57, 58, 56, 58, 55>>,   \* 58:2:9:8:7
  <<51, 56, 59, 53, 59, 48, 55>>   \* 38;5;07
>>
Small == <<
  <<>>,   \* (empty)
  <<48>>,   \* 0
  <<49>>,   \* 1
  <<52>>,   \* 4
  <<57>>,   \* 9
  <<50, 49>>,   \* 21
  <<51, 49>>,   \* 31
  <<51, 57>>,   \* 39
  <<52, 57>>,   \* 49
  <<57, 50>>,   \* 92
  <<52, 58, 48>>,   \* 4:0
  <<52, 58, 51>>,   \* 4:3
  <<51, 56, 59, 53, 59, 49>>,   \* 38;5;1
  <<52, 56, 58, 53, 58, 50, 53, 53>>,   \* 48:5:255
  <<53, 56, 59, 50, 59, 57, 59, 56, 59, 55>>,   \* 58;2;9;8;7
  <<50, 50>>   \* 22
>>

GT == IF UseFull THEN Full ELSE Small
VARIABLE sel
Init == sel = <<>>
Next == Len(sel) < Groups /\ \E k \in 1..Len(GT) : sel' = Append(sel, k)
Spec == Init /\ [][Next]_sel
RECURSIVE Join(_, _)
Join(ks, sep) == IF ks = <<>> THEN <<>> ELSE GT[Head(ks)] \o (IF Len(ks) > 1 THEN sep ELSE <<>>) \o Join(Tail(ks), sep)
Combined == <<27, 91>> \o Join(sel, <<59>>) \o <<109, 88>>
RECURSIVE Sep(_)
Sep(ks) == IF ks = <<>> THEN <<>> ELSE <<27, 91>> \o GT[Head(ks)] \o <<109>> \o Sep(Tail(ks))
Separate == Sep(sel) \o <<88>>
StyleJson(g) == [fg |-> g.fg, bg |-> g.bg, ul |-> g.ul, eff |-> SelectSeq(EffOrder, LAMBDA e : e \in g.eff)]
SetToSeqJ(S) == LET RECURSIVE T(_)
                    T(R) == IF R = {} THEN <<>> ELSE LET x == CHOOSE y \in R : TRUE IN <<StyleJson(x)>> \o T(R \ {x})
                IN T(S)
\* two runs: text of the first run is a blank, a newline or a letter
Inter(t) == <<27, 91>> \o GT[sel[1]] \o <<109>> \o t \o <<27, 91>> \o GT[sel[2]] \o <<109, 88>>
CharsJson(bytes) == LET cs == CharsAllowed(bytes) IN [k \in 1..Len(cs) |-> [c |-> cs[k].c, allowed |-> SetToSeqJ(cs[k].S)]]
Emit == sel # <<>> =>
   LET a == AllowedAfter(Combined)
       b == AllowedAfter(Separate)
   IN /\ a.S = b.S /\ ~a.wild /\ ~b.wild                      \* combined = separate, on the specification
      /\ PrintT(ToJson([i |-> Combined, chars |-> CharsJson(Combined)]))
      /\ (Len(sel) > 1 => PrintT(ToJson([i |-> Separate, chars |-> CharsJson(Separate)])))
      /\ (Len(sel) = 2 => \A t \in {<<32>>, <<32, 32, 9>>, <<10>>, <<97>>} :
                             PrintT(ToJson([i |-> Inter(t), chars |-> CharsJson(Inter(t))])))
=============================================================================
