---------------------------- MODULE MC_ColorChoice ----------------------------
(* C09: the full cross product of configurations as initial states.  Checked on  *)
(* the specification: the precedence theorems of the statement, each with a      *)
(* witness pair of configurations differing only in the lower-priority variable  *)
(* (non-vacuity).  Every configuration is printed with the expected decision,    *)
(* the expected value of every probe and what an AutoStream built from it must   *)
(* report.                                                                       *)
EXTENDS ColorChoice, AutoStream, TLC, Json
Globals == {"Auto", "AlwaysAnsi", "Always", "Never"}
V4 == {Unset, "", "0", "1"}
Terms == {Unset, "", "dumb", "xterm-256color"}
Cis == {Unset, "", "true"}
Envs == [NO_COLOR : V4, CLICOLOR_FORCE : V4, CLICOLOR : V4, TERM : Terms, CI : Cis]
VARIABLES g, env, term
Init == g \in Globals /\ env \in Envs /\ term \in BOOLEAN
Next == UNCHANGED <<g, env, term>>
Spec == Init /\ [][Next]_<<g, env, term>>
D == Query(g, env, term)
T1 == g # "Auto" => D = g
T2 == (g = "Auto" /\ NonEmpty(env.NO_COLOR)) => D = "Never"
T3 == (g = "Auto" /\ ~NonEmpty(env.NO_COLOR) /\ NonEmpty(env.CLICOLOR_FORCE)) => D = "Always"
T4 == (g = "Auto" /\ ~NonEmpty(env.NO_COLOR) /\ ~NonEmpty(env.CLICOLOR_FORCE) /\ env.CLICOLOR = "0") => D = "Never"
T5 == (g = "Auto" /\ ~NonEmpty(env.NO_COLOR) /\ ~NonEmpty(env.CLICOLOR_FORCE) /\ env.CLICOLOR # "0") =>
        (D = "Always") = (term /\ ((env.TERM # Unset /\ env.TERM # "dumb") \/ env.CLICOLOR # Unset \/ env.CI # Unset))
T6 == D \in {"AlwaysAnsi", "Always", "Never"}
\* witnesses: each precedence step really decides something
W(v, a, b) == \E e \in Envs, t \in BOOLEAN : Query("Auto", [e EXCEPT ![v] = a], t) # Query("Auto", [e EXCEPT ![v] = b], t)
ASSUME W("NO_COLOR", Unset, "1") /\ W("CLICOLOR_FORCE", Unset, "1") /\ W("CLICOLOR", Unset, "0") /\ W("CLICOLOR", Unset, "1")
ASSUME W("TERM", "dumb", "xterm-256color") /\ W("TERM", Unset, "") /\ W("CI", Unset, "")
ASSUME \E e \in Envs : Query("Auto", e, TRUE) # Query("Auto", e, FALSE)
ASSUME \A a \in {"auto", "always", "never"} : ClapFlag(a) \in {"Auto", "Always", "Never"}
Emit == PrintT(ToJson([g |-> g, env |-> env, term |-> term, decision |-> D,
                       reported |-> Reported(ModeOf("Auto", D, FALSE)),
                       no_color |-> NoColor(env), clicolor_force |-> ClicolorForce(env), clicolor |-> Clicolor(env),
                       term_color |-> TermSupportsColor(env), ci |-> IsCi(env)]))
=============================================================================
