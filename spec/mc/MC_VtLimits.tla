---------------------------- MODULE MC_VtLimits -----------------------------
(* Spec-level model checking of the parser design (C02 S, C04, C20):           *)
(*  - the documented limits hold in every reachable state and every event      *)
(*    (scaled constants so that "one below / at / above" each limit is reached *)
(*    at small depth);                                                         *)
(*  - ESC from anywhere enters Escape with cleared collection state;           *)
(*  - history is hidden by the VIEW: the parser state alone is explored.       *)
EXTENDS VtParser, TLC
CONSTANTS Depth, FullBytes
Alphabet == {0, 7, 10, 24, 26, 27, 32, 48, 57, 58, 59, 60, 64, 80, 88, 91, 92, 93, 109, 127, 128, 156, 194, 224, 160}
VARIABLES ps, last, n
vars == <<ps, last, n>>
Init == ps = Init0 /\ last = <<>> /\ n = 0
Next == /\ n < Depth
        /\ \E b \in Alphabet : LET r == Step(ps, b) IN ps' = r[1] /\ last' = <<b, r[2]>> /\ n' = n + 1
Spec == Init /\ [][Next]_vars
View == <<ps, n>>
Limits == LimitsOk(ps)
EvLimits == last # <<>> => \A k \in 1..Len(last[2]) : EventLimitsOk(last[2][k])
EscClears == (last # <<>> /\ last[1] = 27) =>
               /\ ps.st = "Escape" /\ ps.inter = <<>> /\ ~ps.ign /\ ps.pg = <<>> /\ ps.og = <<>> /\ ps.cur = 0
CanGround == (last # <<>> /\ last[1] \in {24, 26}) => ps.st = "Ground"
(* Observational quotient: fields that can no longer influence any callback are stale.  *)
(* NormBisim says Norm is a bisimulation; with CanFresh (after CAN/SUB the state is      *)
(* Norm-equal to the initial state) this gives "parsed as by a fresh parser" for          *)
(* continuations of ANY length, from every explored history.                             *)
Norm(p) ==
  LET q == IF p.st # "OscString" THEN [p EXCEPT !.osc = <<>>, !.oscf = <<>>, !.oscn = 0, !.oscraw = 0] ELSE p
  IN IF q.st \in {"Ground", "OscString", "SosPmApcString", "DcsPassthrough", "DcsIgnore", "CsiIgnore", "Utf8"}
     THEN [q EXCEPT !.inter = <<>>, !.ign = FALSE, !.pg = <<>>, !.og = <<>>, !.cur = 0] ELSE q
NormBisim == \A b \in (IF FullBytes THEN 0..255 ELSE Alphabet) :
               LET r1 == Step(ps, b)
                   r2 == Step(Norm(ps), b)
               IN r1[2] = r2[2] /\ Norm(r1[1]) = Norm(r2[1])
CanFresh == (last # <<>> /\ last[1] \in {24, 26}) => Norm(ps) = Init0
\* events carry at most one "content" callback per byte, preceded by at most one exit callback
EvShape == last # <<>> => Len(last[2]) <= 2
=============================================================================
