SPECIFICATION Spec
INVARIANT EmitCaps
CHECK_DEADLOCK FALSE
CONSTANTS
 Groups = 2
 UseFull = TRUE
 AcceptIntermediatesIgnored = FALSE
 AcceptShortWriteAbandon = FALSE
