------------------------------- MODULE MC_Lossy -------------------------------
(* Structural facts of the Lossy specification (C10 S): every fixed colour of   *)
(* the 256 palette is its own nearest candidate (no duplicates among 16..255),   *)
(* the cube/ramp decomposition, and Dist is a premetric (0 exactly on equality,  *)
(* symmetric) on a lattice.                                                     *)
EXTENDS Lossy, TLC
VARIABLE i
Init == i \in 16..255
Next == UNCHANGED i
Spec == Init /\ [][Next]_i
SelfNearest == RgbToXtermOk(Xterm(i), i)
NoDup == \A j \in 16..255 : (Xterm(j) = Xterm(i)) => j = i
Lat == {0, 1, 95, 128, 254, 255}
Premetric == \A a \in Lat, b \in Lat : LET c == <<a, b, 255 - a>> IN
               /\ Dist(c, Xterm(i)) = Dist(Xterm(i), c)
               /\ (Dist(c, Xterm(i)) = 0) = (c = Xterm(i))
=============================================================================
