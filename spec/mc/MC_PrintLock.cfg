SPECIFICATION Spec
INVARIANT NoInterleave
INVARIANT MutualExclusion
CHECK_DEADLOCK FALSE
CONSTANTS
 Threads = {1, 2, 3}
 Calls = 2
 Frags = 3
 PerFragment = FALSE
