SPECIFICATION Spec
INVARIANT RoundTrip
INVARIANT Combined
INVARIANT LenientCoversStrict
CHECK_DEADLOCK FALSE
CONSTANTS
 Big = FALSE
