------------------------------ MODULE MC_GitStyle ------------------------------
(* C11: exhaustively all descriptions of up to Words words over a vocabulary of   *)
(* attributes, negations, colours, boundary numbers, hex forms and near misses     *)
(* (table generated once), in several whitespace spellings, each printed with the  *)
(* result GitStyle!Parse assigns.  RoundTrip (separate configuration): printing    *)
(* any expressible style and parsing it back yields the same style.                *)
EXTENDS GitStyle, TLC, Json
CONSTANTS Words_, Mode
Vocab == <<
  <<98, 111, 108, 100>>,
  <<100, 105, 109>>,
  <<117, 108>>,
  <<98, 108, 105, 110, 107>>,
  <<114, 101, 118, 101, 114, 115, 101>>,
  <<105, 116, 97, 108, 105, 99>>,
  <<115, 116, 114, 105, 107, 101>>,
  <<110, 111, 98, 111, 108, 100>>,
  <<110, 111, 45, 100, 105, 109>>,
  <<110, 111, 117, 108>>,
  <<110, 111, 45, 98, 108, 105, 110, 107>>,
  <<110, 111, 114, 101, 118, 101, 114, 115, 101>>,
  <<110, 111, 45, 105, 116, 97, 108, 105, 99>>,
  <<110, 111, 115, 116, 114, 105, 107, 101>>,
  <<110, 111, 114, 109, 97, 108>>,
  <<45, 49>>,
  <<98, 108, 97, 99, 107>>,
  <<114, 101, 100>>,
  <<103, 114, 101, 101, 110>>,
  <<121, 101, 108, 108, 111, 119>>,
  <<98, 108, 117, 101>>,
  <<109, 97, 103, 101, 110, 116, 97>>,
  <<99, 121, 97, 110>>,
  <<119, 104, 105, 116, 101>>,
  <<48>>,
  <<55>>,
  <<56>>,
  <<50, 53, 53>>,
  <<50, 53, 54>>,
  <<48, 50, 53, 53>>,
  <<48, 48>>,
  <<43, 53>>,
  <<45, 48>>,
  <<49, 101, 49>>,
  <<57, 57, 57>>,
  <<35, 97, 98, 99>>,
  <<35, 65, 66, 67, 68, 69, 70>>,
  <<35, 49, 50>>,
  <<35, 49, 50, 51, 52>>,
  <<35, 103, 103, 103>>,
  <<35, 43, 102, 43, 102, 43, 102>>,
  <<35, 233, 49>>,
  <<35, 49, 50, 51, 52, 53, 103>>,
  <<35, 97, 233, 49, 50, 51>>,
  <<35, 48, 102, 48, 102, 48, 70>>,
  <<35>>,
  <<98, 111, 108, 116>>,
  <<110, 111, 98, 111, 108, 100, 45>>,
  <<110, 111>>,
  <<110, 111, 45>>,
  <<45, 45, 49>>,
  <<98, 114, 105, 103, 104, 116, 114, 101, 100>>,
  <<66, 79, 76, 68>>,
  <<82, 101, 100>>,
  <<78, 111, 85, 108>>,
  <<78, 111, 45, 73, 116, 97, 108, 105, 99>>,
  <<110, 111, 95, 98, 111, 108, 100>>,
  <<65362, 65349, 65348>>,
  <<233>>,
  <<117, 108, 44>>,
  <<98, 111, 108, 100, 59>>
>>
Seps == <<<<32>>, <<9>>, <<10, 32>>, <<32, 32>>, <<32, 160>>, <<8195>>, <<13, 10>>>>
VARIABLES sel, st
vars == <<sel, st>>
Colours == {None, <<"ansi", 0>>, <<"ansi", 7>>, <<"idx", 0>>, <<"idx", 9>>, <<"idx", 255>>, <<"rgb", 0, 0, 0>>, <<"rgb", 26, 43, 255>>}
Attrs == {AttrNames[k][2] : k \in 1..Len(AttrNames)}
Init == IF Mode = "enum" THEN sel = <<>> /\ st = 0
        ELSE sel = <<>> /\ st \in [fg : Colours, bg : Colours, eff : SUBSET Attrs]
Next == Mode = "enum" /\ Len(sel) < Words_ /\ (\E k \in 1..Len(Vocab) : sel' = Append(sel, k)) /\ UNCHANGED st
Spec == Init /\ [][Next]_vars
RECURSIVE Join(_, _)
Join(ks, n) == IF ks = <<>> THEN <<>>
               ELSE Vocab[Head(ks)] \o (IF Len(ks) > 1 THEN Seps[1 + ((n + Head(ks)) % Len(Seps))] ELSE <<>>) \o Join(Tail(ks), n + 1)
Text == (IF Len(sel) > 0 /\ sel[1] % 3 = 0 THEN <<32>> ELSE <<>>) \o Join(sel, 0) \o (IF Len(sel) > 0 /\ sel[1] % 4 = 0 THEN <<9>> ELSE <<>>)
ResJson(r) == IF r[1] = "ok" THEN <<"ok", [fg |-> r[2].fg, bg |-> r[2].bg, eff |-> {e \in r[2].eff : TRUE}]>> ELSE r
SetSeq(S) == LET RECURSIVE T(_)
                 T(R) == IF R = {} THEN <<>> ELSE LET x == CHOOSE y \in R : TRUE IN <<x>> \o T(R \ {x})
             IN T(S)
Emit == (Mode = "enum" /\ sel # <<>>) =>
          LET r == Parse(Text) IN
          PrintT(ToJson([s |-> Text, r |-> IF r[1] = "ok" THEN <<"ok", [fg |-> r[2].fg, bg |-> r[2].bg, eff |-> SetSeq(r[2].eff)]>> ELSE r]))
\* a style with a background needs a foreground word ("normal" when unset): expressible = every style of the domain
RoundTrip == Mode = "roundtrip" => Parse(Print(st)) = <<"ok", st>>
=============================================================================
