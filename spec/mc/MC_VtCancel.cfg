SPECIFICATION Spec
INVARIANT AsFresh
CHECK_DEADLOCK FALSE
CONSTANTS
 HistDepth = 4
 LockDepth = 4
 MaxParams = 3
 MaxInter = 2
 MaxOsc = 2
 ParamCap = 99
 OscRawCap = 0
 Utf8On = TRUE
