---------------------------- MODULE MC_StripEnum ----------------------------
(* All byte strings of length N over the class alphabet (Mode = "bytes"), or   *)
(* all strings of N code points over a scalar alphabet, UTF-8 encoded          *)
(* (Mode = "str"), each printed with the requirement vector of Strip (C01 A,   *)
(* C03 A, C04).  The implementation side runs every strip API, and for short   *)
(* strings every chunking, against these vectors.                              *)
EXTENDS Strip, TLC, Json
CONSTANTS N, Mode, First
\* (11 = VT and 12 = FF: the table has one class for C0 controls, but the CODE also asks "is it ASCII whitespace", which
\*  separates TAB LF FF CR from VT)
ByteAlphabet == ClassReps \cup {9, 10, 11, 12, 13, 109, 49, 58, 59, 92, 143, 159, 160, 191, 192, 193,
                                194, 223, 224, 237, 240, 244, 245, 255}
\* scalar values: controls, sequence introducers/finals, text, and characters whose UTF-8
\* encoding contains bytes that are C1 controls when read alone (U+009C = C2 9C, U+2705 = E2 9C 85)
CpAlphabet == {0, 7, 9, 10, 11, 12, 24, 27, 32, 49, 59, 63, 80, 88, 91, 92, 93, 97, 109, 127,
               128, 156, 233, 8364, 9989, 65533, 128512}
Alphabet == IF Mode = "bytes" THEN ByteAlphabet ELSE CpAlphabet
VARIABLES hist
Init == hist = <<>>
Next == /\ Len(hist) < N
        /\ \E b \in Alphabet :
             /\ (Len(hist) = 0 /\ First # 999) => b = First
             /\ hist' = Append(hist, b)
Spec == Init /\ [][Next]_hist
RECURSIVE Enc(_)
Enc(cps) == IF cps = <<>> THEN <<>> ELSE U8Encode(Head(cps)) \o Enc(Tail(cps))
Bytes == IF Mode = "bytes" THEN hist ELSE Enc(hist)
Leaf == Len(hist) = N => PrintT(ToJson([i |-> Bytes, q |-> Requirement(Bytes)]))
=============================================================================
