SPECIFICATION Spec
INVARIANT Emit
INVARIANT RoundTrip
CHECK_DEADLOCK FALSE
CONSTANTS
 Words_ = 2
 Mode = "enum"
