SPECIFICATION Spec
INVARIANT SelfNearest
INVARIANT NoDup
INVARIANT Premetric
CHECK_DEADLOCK FALSE
