----------------------------- MODULE MC_VtEnum ------------------------------
(* All byte strings of length N over the class-representative alphabet, each  *)
(* printed with the callbacks the specification expects after every byte      *)
(* (C02 mechanism A2; also feeds C01/C04).  First, when not 256, fixes the    *)
(* first byte so that the enumeration can be sharded over processes.          *)
EXTENDS VtParser, TLC, Json
CONSTANTS N, First
Extra == {9, 10, 13, 109, 48, 49, 57, 58, 59, 194, 223, 224, 225, 236, 237, 238, 240, 241, 243, 244,
          128, 143, 144, 159, 160, 191, 192, 193, 245, 255}
Alphabet == ClassReps \cup Extra
VARIABLES ps, hist, evs
Init == ps = Init0 /\ hist = <<>> /\ evs = <<>>
Next == /\ Len(hist) < N
        /\ \E b \in Alphabet :
             /\ (Len(hist) = 0 /\ First # 256) => b = First
             /\ LET r == Step(ps, b) IN ps' = r[1] /\ hist' = Append(hist, b) /\ evs' = Append(evs, r[2])
Spec == Init /\ [][Next]_<<ps, hist, evs>>
Leaf == Len(hist) = N => PrintT(ToJson([i |-> hist, e |-> evs]))
Limits == LimitsOk(ps)
AlphabetInfo == hist = <<>> => PrintT(ToJson([alphabet |-> Alphabet]))
=============================================================================
