SPECIFICATION FairSpec
INVARIANT Consistent
PROPERTY Termination
CHECK_DEADLOCK FALSE
CONSTANTS
 L = 3
 MaxFaults = 2
 OnePiece = TRUE
 D_ReplayTail = FALSE
 D_ErrAdvance = FALSE
 Emit = FALSE
 D_RunGroundRow = FALSE
 D_StrReset = FALSE
 D_Utf8CtlLeak = FALSE
 AcceptCtlLeak = FALSE
