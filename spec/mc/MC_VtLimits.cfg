SPECIFICATION Spec
VIEW View
INVARIANT Limits
INVARIANT EvLimits
INVARIANT EscClears
INVARIANT CanGround
INVARIANT EvShape
INVARIANT NormBisim
INVARIANT CanFresh
CHECK_DEADLOCK FALSE
CONSTANTS
 Depth = 7
 FullBytes = FALSE
 MaxParams = 3
 MaxInter = 2
 MaxOsc = 2
 ParamCap = 99
 OscRawCap = 3
 Utf8On = TRUE
