SPECIFICATION Spec
INVARIANT Emit
CHECK_DEADLOCK FALSE
CONSTANTS
 Codes = 2
 Top = 110
