---------------------------- MODULE MC_ConsoleEnum ----------------------------
(* C18 mechanism A: the SGR enumeration of MC_SgrEnum, with the colour pairs    *)
(* (reduced to the 16-colour palette) the legacy-console stream may use for the *)
(* marker text.                                                                 *)
EXTENDS MC_SgrEnum, WinconStream
PairsToSeq(S) == LET RECURSIVE T(_)
                     T(R) == IF R = {} THEN <<>> ELSE LET x == CHOOSE y \in R : TRUE IN <<x>> \o T(R \ {x})
                 IN T(S)
CapsJson(bytes) == LET cs == CharsAllowed(bytes) IN [k \in 1..Len(cs) |-> [c |-> cs[k].c, caps |-> PairsToSeq({CapPair(g) : g \in cs[k].S})]]
EmitCaps == sel # <<>> =>
   /\ PrintT(ToJson([i |-> Combined, chars |-> CapsJson(Combined)]))
   /\ (Len(sel) = 2 => \A t \in {<<32>>, <<32, 32, 9>>, <<10>>, <<97>>} :
                          PrintT(ToJson([i |-> Inter(t), chars |-> CapsJson(Inter(t))])))
=============================================================================
