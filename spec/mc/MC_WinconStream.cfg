SPECIFICATION Spec
INVARIANT DesignOk
INVARIANT Exact
INVARIANT ErrPrefix
INVARIANT Emit
CHECK_DEADLOCK FALSE
CONSTANTS
 MaxScript = 3
 MaxFaults = 2
 AllTexts = FALSE
 AcceptIntermediatesIgnored = FALSE
 AcceptShortWriteAbandon = FALSE
