SPECIFICATION Spec
INVARIANT Refines
VIEW View
CHECK_DEADLOCK FALSE
CONSTANTS
 Cap = 3
 Depth = 6
 Small = FALSE
