---------------------------- MODULE MC_VtFeatures ----------------------------
(* C20 on the specification: the parser with a fixed OSC buffer (cap scaled to   *)
(* Cap bytes) or without UTF-8 support, in lockstep with the default             *)
(* configuration over 7-bit input:                                               *)
(*  - while no OSC payload has exceeded the buffer, all configurations emit       *)
(*    identical callbacks and stay in observationally equal states;              *)
(*  - an oversize payload is truncated at the limit (never more than Cap bytes,  *)
(*    a prefix of the full payload, ';' counted only while room remains) and     *)
(*    everything after the OSC is parsed identically again.                      *)
EXTENDS Naturals, Sequences, TLC
CONSTANTS Cap, Depth, Small
VA == INSTANCE VtParser WITH MaxParams <- 3, MaxInter <- 2, MaxOsc <- 2, ParamCap <- 99, OscRawCap <- 0, Utf8On <- TRUE
VB == INSTANCE VtParser WITH MaxParams <- 3, MaxInter <- 2, MaxOsc <- 2, ParamCap <- 99, OscRawCap <- Cap, Utf8On <- TRUE
VC == INSTANCE VtParser WITH MaxParams <- 3, MaxInter <- 2, MaxOsc <- 2, ParamCap <- 99, OscRawCap <- 0, Utf8On <- FALSE
VD == INSTANCE VtParser WITH MaxParams <- 3, MaxInter <- 2, MaxOsc <- 2, ParamCap <- 99, OscRawCap <- Cap, Utf8On <- FALSE
Alphabet == IF Small THEN {7, 24, 27, 32, 48, 59, 91, 92, 93, 109}
            ELSE {0, 7, 10, 24, 27, 32, 48, 57, 58, 59, 60, 64, 80, 88, 91, 92, 93, 109, 127}
VARIABLES pa, pb, pc, pd, ovf, ok, n
vars == <<pa, pb, pc, pd, ovf, ok, n>>
Init == pa = VA!Init0 /\ pb = VB!Init0 /\ pc = VC!Init0 /\ pd = VD!Init0 /\ ovf = FALSE /\ ok = TRUE /\ n = 0
RECURSIVE Flat(_)
Flat(fs) == IF fs = <<>> THEN <<>> ELSE Head(fs) \o Flat(Tail(fs))
IsPrefix(s, t) == Len(s) <= Len(t) /\ SubSeq(t, 1, Len(s)) = s
\* observational state: OSC collection fields only matter inside an OSC string
Obs(p) == [p EXCEPT !.osc = IF p.st = "OscString" THEN @ ELSE <<>>, !.oscf = IF p.st = "OscString" THEN @ ELSE <<>>,
                   !.oscn = IF p.st = "OscString" THEN @ ELSE 0, !.oscraw = IF p.st = "OscString" THEN @ ELSE 0]
NonOsc(evs) == SelectSeq(evs, LAMBDA e : e.k # "osc")
OscOf(evs) == SelectSeq(evs, LAMBDA e : e.k = "osc")
Next ==
  /\ n < Depth /\ ok
  /\ \E b \in Alphabet :
     LET ra == VA!Step(pa, b) rb == VB!Step(pb, b) rc == VC!Step(pc, b) rd == VD!Step(pd, b)
         \* the capped copy drops this byte
         drop == pb.st = "OscString" /\ VB!Arc(pb.st, b)[2] = "OscPut" /\ ~VB!OscRoom(pb)
         ovf2 == (ovf \/ drop) /\ ra[1].st = "OscString"     \* forget the overflow once the OSC has ended
         trunc == /\ Len(OscOf(ra[2])) = 1 /\ Len(OscOf(rb[2])) = 1
                  /\ LET fa == OscOf(ra[2])[1] fb == OscOf(rb[2])[1] IN
                     /\ fa.bell = fb.bell /\ IsPrefix(Flat(fb.f), Flat(fa.f)) /\ Len(Flat(fb.f)) <= Cap
                     /\ Len(fb.f) <= Len(fa.f)
     IN /\ pa' = ra[1] /\ pb' = rb[1] /\ pc' = rc[1] /\ pd' = rd[1] /\ ovf' = ovf2
        /\ ok' = /\ ra[2] = rc[2] /\ rb[2] = rd[2]                         \* utf8 feature is invisible on 7-bit input
                 /\ NonOsc(ra[2]) = NonOsc(rb[2])
                 /\ (IF ovf \/ drop THEN (OscOf(ra[2]) = <<>> /\ OscOf(rb[2]) = <<>>) \/ trunc ELSE ra[2] = rb[2])
                 /\ (ra[1].st # "OscString" => Obs(ra[1]) = Obs(rb[1]))   \* what follows is unaffected
                 /\ rb[1].oscraw <= Cap
  /\ n' = n + 1
Spec == Init /\ [][Next]_vars
Refines == ok
View == <<pa, pb, pc, pd, ovf, ok>>
=============================================================================
