SPECIFICATION Spec
INVARIANT DesignOk
INVARIANT Emit
CHECK_DEADLOCK FALSE
CONSTANTS
 AllData = FALSE
 D_RunGroundRow = FALSE
 D_StrReset = FALSE
 D_Utf8CtlLeak = FALSE
 AcceptCtlLeak = FALSE
