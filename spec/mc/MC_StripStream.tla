--------------------------- MODULE MC_StripStream ----------------------------
(* Algorithm layer of C06: StripStream::write against an adversarial inner      *)
(* writer.  All inputs of length L over an escape-rich alphabet x all ways the   *)
(* caller may cut the remaining input into write calls x all fault placements    *)
(* (short writes of 0..3 bytes, Interrupted, WouldBlock, Other) up to a fault    *)
(* budget.  Invariant: whenever the caller may issue its next call, what the     *)
(* inner writer has accepted is exactly the visible text of what was reported    *)
(* consumed.  Holds for the ideal algorithm (OnePiece); each deviation of the    *)
(* code must produce a counterexample.  With Emit, every complete behaviour is   *)
(* printed as a replayable script (input, call sizes, inner responses).          *)
EXTENDS Strip, TLC, Json
CONSTANTS L, MaxFaults, OnePiece, D_ReplayTail, D_ErrAdvance, Emit

Alpha == {97, 27, 91, 109, 10}

Kept(i, buf) == FoldBytes(SBEndChunk(i), buf)[2]
StateAfter(i, buf) == FoldBytes(SBEndChunk(i), buf)[1]

RECURSIVE PiecesFrom(_, _)
PiecesFrom(k, p) ==
  IF p > Len(k) THEN <<>>
  ELSE IF ~k[p] THEN PiecesFrom(k, p + 1)
  ELSE LET RECURSIVE EndOf(_)
           EndOf(q) == IF q < Len(k) /\ k[q + 1] THEN EndOf(q + 1) ELSE q
           e == EndOf(p)
       IN <<<<p, e>>>> \o PiecesFrom(k, e + 1)

\* visible text of a prefix according to the reference (alphabet has no UTF-8: exact)
RECURSIVE RefVis(_, _)
RefVis(r, buf) == IF buf = <<>> THEN <<>>
                  ELSE LET s == RefStep(r, Head(buf)) IN
                       (IF s[2] \in {"P", "W"} THEN <<Head(buf)>> ELSE <<>>) \o RefVis(s[1], Tail(buf))

VARIABLES input, pos, sst, delivered, faults, lastret, hist
vars == <<input, pos, sst, delivered, faults, lastret, hist>>

Init == /\ input \in [1..L -> Alpha]
        /\ pos = 0 /\ sst = SBInit /\ delivered = <<>> /\ faults = 0 /\ lastret = "none" /\ hist = <<>>

Rec(c, rs) == IF Emit THEN Append(hist, [c |-> c, rs |-> rs]) ELSE hist

CallWrite ==
  /\ pos < Len(input) /\ lastret # "fatal"
  /\ \E c \in 1..(Len(input) - pos) :
     LET buf  == SubSeq(input, pos + 1, pos + c)
         pcs0 == PiecesFrom(Kept(sst, buf), 1)
         pcs  == IF OnePiece /\ Len(pcs0) > 1 THEN <<pcs0[1]>> ELSE pcs0
         full == IF OnePiece /\ Len(pcs0) > 1 THEN pcs0[1][2] ELSE Len(buf)
         data(k) == SubSeq(buf, pcs[k][1], pcs[k][2])
         RECURSIVE Cat(_)
         Cat(k) == IF k = 0 THEN <<>> ELSE Cat(k - 1) \o data(k)
         alls(k) == [i \in 1..k |-> "all"]
     IN
       \/ /\ delivered' = delivered \o Cat(Len(pcs))
          /\ pos' = pos + full
          /\ sst' = StateAfter(sst, SubSeq(buf, 1, full))
          /\ lastret' = "ok" /\ UNCHANGED faults
          /\ hist' = Rec(c, alls(Len(pcs)))
       \/ /\ faults < MaxFaults
          /\ faults' = faults + 1
          /\ \E k \in 1..Len(pcs) :
             \/ \E m \in 0..3 :
                  /\ m < Len(data(k))
                  /\ LET off == pcs[k][1] - 1 + m IN
                     /\ delivered' = delivered \o Cat(k - 1) \o SubSeq(data(k), 1, m)
                     /\ pos' = pos + off
                     /\ sst' = IF D_ReplayTail THEN StateAfter(sst, SubSeq(buf, off + 1, Len(buf)))
                               ELSE StateAfter(sst, SubSeq(buf, 1, off))
                     /\ lastret' = "ok"
                     /\ hist' = Rec(c, Append(alls(k - 1), m))
             \/ \E kind \in {"eI", "eW", "eO"} :
                  /\ delivered' = delivered \o Cat(k - 1)
                  /\ pos' = pos
                  /\ sst' = IF D_ErrAdvance THEN StateAfter(sst, SubSeq(buf, 1, pcs[k][2])) ELSE sst
                  /\ lastret' = IF kind = "eI" THEN "retry" ELSE "fatal"
                  /\ hist' = Rec(c, Append(alls(k - 1), kind))
  /\ UNCHANGED input

Next == CallWrite
Spec == Init /\ [][Next]_vars

Done == pos = Len(input) \/ lastret = "fatal"
\* liveness of the design: with the fault budget spent, every call makes progress, so the protocol-following caller finishes
FairSpec == Spec /\ WF_vars(Next)
Termination == <>Done

Consistent == lastret \in {"ok", "retry"} => delivered = RefVis(RInit, SubSeq(input, 1, pos))
EmitScripts == (Emit /\ Done /\ hist # <<>>) => PrintT(ToJson([i |-> input, calls |-> hist]))
=============================================================================
