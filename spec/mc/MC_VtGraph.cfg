SPECIFICATION Spec
VIEW View
INVARIANT Emit
CHECK_DEADLOCK FALSE
CONSTANTS
 Depth = 4
 MaxParams = 32
 MaxInter = 2
 MaxOsc = 16
 ParamCap = 65535
 OscRawCap = 0
 Utf8On = TRUE
