----------------------------- MODULE MC_VtTable -----------------------------
(* Emits the complete transition function of the specification, one line per  *)
(* (state, byte) cell, for the cell-by-cell comparison with                   *)
(* anstyle_parse::state::state_change (C02, mechanism A1).                    *)
EXTENDS VtTable, TLC, Json, Sequences
Rows == (States \ {"Utf8"})
Cell(s, b) == LET a == Arc(s, b) IN [s |-> s, b |-> b, n |-> a[1], a |-> a[2]]
\* the two pseudo rows of the implementation's function
AnyCell(b) == LET a == AnywhereArc(b) IN
              [s |-> "Anywhere", b |-> b, n |-> a[1], a |-> IF a[2] = "-" THEN "None" ELSE a[2]]
Utf8Cell(b) == LET a == Arc("Utf8", b) IN [s |-> "Utf8", b |-> b, n |-> a[1], a |-> a[2]]
ASSUME \A s \in Rows : PrintT(ToJson([b \in 0..255 |-> Cell(s, b)]))
ASSUME PrintT(ToJson([b \in 0..255 |-> AnyCell(b)]))
ASSUME PrintT(ToJson([b \in 0..255 |-> Utf8Cell(b)]))
ASSUME PrintT(ToJson([reps |-> ClassReps]))
VARIABLE x
Init == x = 0
Next == UNCHANGED x
=============================================================================
