---------------------------- MODULE MC_WinconStream ----------------------------
(***************************************************************************)
(* C18, algorithm layer: the legacy-console stream over an UNRELIABLE       *)
(* console, as a state machine (crates/anstream/src/wincon.rs after the     *)
(* repair of F13).  One behaviour = one write-family call:                  *)
(*                                                                         *)
(*   Init        a text (an earlier call `pre` on a reliable console, then   *)
(*               the buffer `buf`), an entry point, a console script         *)
(*   Offer       the rest of the current run is offered to the console;      *)
(*               the console answers with the head of the script:            *)
(*                 "all"  everything        "s1"  one byte (a short write)    *)
(*                 "z"    Ok(0)             "eI"  Interrupted   "eO"  other   *)
(*               - all / s1: advance inside the run, or to the next run       *)
(*               - z       : the call returns WriteZero                        *)
(*               - eI      : `write` returns it; write_all / write_fmt retry   *)
(*               - eO      : the call returns it                               *)
(*   Finish      no run left: Ok(len(buf))                                    *)
(*                                                                         *)
(* Checked here:                                                            *)
(*   DesignOk    every finished behaviour is accepted by the observational   *)
(*               judge WinconStream!ConsoleNext (no tolerance): the design    *)
(*               meets the property under every console script               *)
(*   Exact       on Ok the console ACCEPTED exactly the text of the runs,     *)
(*               in order, each byte once, with the run's colour pair         *)
(*   Termination every call returns (WF on Next; the script is finite and an  *)
(*               exhausted script means a console that takes everything)      *)
(* Every behaviour's (pre, buf, op, script) is printed for replay against    *)
(* the real stream (vh-wincon script-replay); the replayed calls are judged  *)
(* by Trace_WinconStream, i.e. by the same ConsoleNext.                      *)
(***************************************************************************)
EXTENDS WinconStream, TLC, Json, FiniteSets
CONSTANTS MaxScript, MaxFaults, AllTexts

\* pre, buf   (27 91 = CSI; 109 = m)
TextsQ == <<
  [pre |-> <<>>,                 buf |-> <<97, 27, 91, 51, 49, 109, 98, 99, 27, 91, 48, 109, 100>>],            \* a ESC[31m bc ESC[0m d
  [pre |-> <<27, 91, 52, 52>>,   buf |-> <<109, 195, 169, 27, 91, 49, 59, 51, 50, 109, 122>>],                \* ESC[44 | m e-acute ESC[1;32m z
  [pre |-> <<>>,                 buf |-> <<27, 91, 51, 49, 109, 27, 91, 48, 109>>],                           \* no text at all
  [pre |-> <<27, 91, 51, 49, 109>>, buf |-> <<113, 10, 27, 91, 51, 56, 59, 53, 59, 49, 50, 109, 226, 130, 172>>] \* ESC[31m | q LF ESC[38;5;12m euro
>>
TextsT == TextsQ \o <<
  [pre |-> <<>>,                 buf |-> <<120, 121>>],
  [pre |-> <<120, 27>>,          buf |-> <<91, 57, 49, 59, 49, 48, 52, 109, 121, 27, 91, 109, 122, 27, 91, 51>>],  \* x ESC | [91;104m y ESC[m z ESC[3
  [pre |-> <<>>,                 buf |-> <<27, 91, 55, 109, 240, 159, 152, 128, 9, 27, 91, 52, 56, 59, 50, 59, 49, 59, 50, 59, 51, 109, 119>>]
>>
Texts == IF AllTexts THEN TextsT ELSE TextsQ
Ops == {"write", "write_all", "write_fmt"}
Resps == {"all", "s1", "z", "eI", "eO"}

\* deterministic extraction for these texts: the rendition set is a singleton throughout
RECURSIVE EvRuns(_, _, _)
\* a = [x, runs, cur]   cur = <<rendition, bytes>> or <<>>
Close(a) == IF a.cur = <<>> \/ a.cur[2] = <<>> THEN [a EXCEPT !.cur = <<>>]
            ELSE [a EXCEPT !.runs = Append(a.runs, <<CapPair(a.cur[1])[1], CapPair(a.cur[1])[2], a.cur[2]>>), !.cur = <<>>]
EvRuns(a, evs, dummy) ==
  IF evs = <<>> THEN a
  ELSE LET e == Head(evs) IN
    IF IsVisible(e) /\ CharOf(e) # 127 THEN
       LET g  == CHOOSE g \in a.x.S : TRUE
           bs == IF e.k = "print" THEN U8Encode(e.c) ELSE <<e.b>>
           a2 == IF a.cur # <<>> /\ a.cur[1] # g THEN Close(a) ELSE a
           c2 == IF a2.cur = <<>> THEN <<g, bs>> ELSE <<g, a2.cur[2] \o bs>>
       IN EvRuns([a2 EXCEPT !.cur = c2], Tail(evs), dummy)
    ELSE IF IsSgr(e) THEN EvRuns([a EXCEPT !.x = SgrStep(a.x, e.p)], Tail(evs), dummy)
    ELSE EvRuns(a, Tail(evs), dummy)
RECURSIVE ByteRuns(_, _)
ByteRuns(a, bytes) ==
  IF bytes = <<>> THEN a
  ELSE LET r == VP!Step(a.x.ps, Head(bytes))
       IN ByteRuns(EvRuns([a EXCEPT !.x.ps = r[1]], r[2], 0), Tail(bytes))
\* the judge / extractor state after the earlier call, and the runs of the buffer
StateAfter(pre) == Close(ByteRuns([x |-> XInit, runs |-> <<>>, cur |-> <<>>], pre)).x
RunsOf(tx) == Close(ByteRuns([x |-> StateAfter(tx.pre), runs |-> <<>>, cur |-> <<>>], tx.buf)).runs

VARIABLES t, op, script, sc, ri, off, console, ret, pc
vars == <<t, op, script, sc, ri, off, console, ret, pc>>

IsFault(r) == r # "all"
RECURSIVE Scripts(_)
Scripts(n) == IF n = 0 THEN {<<>>} ELSE LET S == Scripts(n - 1) IN S \cup {Append(s, r) : s \in {q \in S : Len(q) = n - 1}, r \in Resps}
Faults(s) == Cardinality({k \in 1..Len(s) : IsFault(s[k])})

Init == /\ t \in 1..Len(Texts) /\ op \in Ops
        /\ script \in {s \in Scripts(MaxScript) : Faults(s) <= MaxFaults /\ (s = <<>> \/ s[Len(s)] # "all")}
        /\ sc = script /\ ri = 1 /\ off = 0 /\ console = <<>> /\ ret = <<"none", 0>> /\ pc = "run"

Runs == RunsOf(Texts[t])
Offer ==
  /\ pc = "run" /\ ri <= Len(Runs)
  /\ LET run  == Runs[ri]
         rest == SubSeq(run[3], off + 1, Len(run[3]))
         r    == IF sc = <<>> THEN "all" ELSE Head(sc)
         take == IF r = "all" THEN Len(rest) ELSE IF r = "s1" THEN 1 ELSE 0
         tag  == IF r \in {"eI", "eO"} THEN r ELSE "ok"
     IN /\ sc' = IF sc = <<>> THEN sc ELSE Tail(sc)
        /\ console' = Append(console, <<run[1], run[2], rest, tag, take>>)
        /\ IF r \in {"all", "s1"} THEN
              /\ IF take = Len(rest) THEN ri' = ri + 1 /\ off' = 0 ELSE ri' = ri /\ off' = off + take
              /\ UNCHANGED <<ret, pc>>
           ELSE IF r = "z" THEN ret' = <<"eZ", 0>> /\ pc' = "done" /\ UNCHANGED <<ri, off>>
           ELSE IF r = "eI" /\ op # "write" THEN UNCHANGED <<ri, off, ret, pc>>                 \* retried
           ELSE ret' = <<r, 0>> /\ pc' = "done" /\ UNCHANGED <<ri, off>>
  /\ UNCHANGED <<t, op, script>>
Finish ==
  /\ pc = "run" /\ ri > Len(Runs)
  /\ ret' = <<"ok", Len(Texts[t].buf)>> /\ pc' = "done"
  /\ UNCHANGED <<t, op, script, sc, ri, off, console>>
Next == Offer \/ Finish
Spec == Init /\ [][Next]_vars
FairSpec == Spec /\ WF_vars(Next)

Event == [op |-> op, new |-> 0, buf |-> Texts[t].buf, console |-> console, ret |-> ret]
DesignOk == pc = "done" => ConsoleNext(StateAfter(Texts[t].pre), Event) # {}
\* what the console accepted, flattened, on success: every byte of every run once, in order, in the run's colours
Expected == LET RECURSIVE F(_)
                F(rs) == IF rs = <<>> THEN <<>> ELSE [i \in 1..Len(Head(rs)[3]) |-> <<<<Head(rs)[1], Head(rs)[2]>>, Head(rs)[3][i]>>] \o F(Tail(rs))
            IN F(Runs)
Exact == (pc = "done" /\ ret[1] = "ok") => FlatConsole(console) = Expected
\* an error return leaves a prefix handed over, and the error is the console's
ErrPrefix == (pc = "done" /\ ret[1] # "ok") =>
               /\ Len(FlatConsole(console)) <= Len(Expected)
               /\ FlatConsole(console) = SubSeq(Expected, 1, Len(FlatConsole(console)))
               /\ (ret[1] \in {"eI", "eO"} => console[Len(console)][4] = ret[1])
Termination == <>(pc = "done")
Emit == pc = "done" => PrintT(ToJson([pre |-> Texts[t].pre, buf |-> Texts[t].buf, op |-> op, script |-> script, ret |-> ret, calls |-> Len(console)]))
=============================================================================
