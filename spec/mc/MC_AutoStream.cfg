SPECIFICATION Spec
INVARIANT DesignAgreesAndEmit
CHECK_DEADLOCK FALSE
CONSTANTS
 Depth = 3
 D_RunGroundRow = FALSE
 D_StrReset = FALSE
 D_Utf8CtlLeak = FALSE
 AcceptCtlLeak = FALSE
