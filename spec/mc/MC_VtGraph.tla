----------------------------- MODULE MC_VtGraph -----------------------------
(* The specification's state graph turned into implementation tests (C02       *)
(* mechanism A3): history is hidden by the VIEW, so every abstract parser      *)
(* state reachable within Depth bytes is visited once, with one witness        *)
(* prefix; for each such state the expected callbacks of EVERY next byte       *)
(* 0..255 are printed - one implementation test per specification transition.  *)
EXTENDS VtParser, TLC, Json
CONSTANT Depth
Alphabet == {0, 10, 24, 27, 32, 48, 57, 58, 59, 60, 64, 80, 88, 91, 92, 93, 109, 127, 128, 156, 194, 224, 240, 160, 7}
VARIABLES ps, hist
Init == ps = Init0 /\ hist = <<>>
Next == /\ Len(hist) < Depth
        /\ \E b \in Alphabet : ps' = Step(ps, b)[1] /\ hist' = Append(hist, b)
Spec == Init /\ [][Next]_<<ps, hist>>
View == ps
Emit == PrintT(ToJson([w |-> hist, nx |-> [b \in 1..256 |-> Step(ps, b - 1)[2]]]))
=============================================================================
