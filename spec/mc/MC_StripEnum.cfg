SPECIFICATION Spec
INVARIANT Leaf
CHECK_DEADLOCK FALSE
CONSTANTS
 N = 3
 Mode = "bytes"
 First = 999
 D_RunGroundRow = FALSE
 D_StrReset = FALSE
 D_Utf8CtlLeak = FALSE
 AcceptCtlLeak = FALSE
