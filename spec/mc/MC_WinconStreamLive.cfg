SPECIFICATION FairSpec
PROPERTY Termination
CHECK_DEADLOCK FALSE
CONSTANTS
 MaxScript = 3
 MaxFaults = 2
 AllTexts = FALSE
 AcceptIntermediatesIgnored = FALSE
 AcceptShortWriteAbandon = FALSE
