------------------------------ MODULE MC_LsColors ------------------------------
(* C12: exhaustively all lists of up to Codes codes over 0..110 plus the values   *)
(* needed for the extended-colour forms, each printed with the result             *)
(* LsColors!Parse assigns (spelled without leading zeros; the trace generator      *)
(* covers leading zeros and malformed input).                                     *)
EXTENDS LsColors, TLC, Json
CONSTANTS Codes, Top
Vals == (0..Top) \cup {200, 255}
VARIABLE sel
Init == sel = <<>>
Next == Len(sel) < Codes /\ \E v \in Vals : sel' = Append(sel, v)
Spec == Init /\ [][Next]_sel
RECURSIVE Digits(_)
Digits(n) == IF n < 10 THEN <<48 + n>> ELSE Digits(n \div 10) \o <<48 + (n % 10)>>
RECURSIVE Join(_)
Join(vs) == IF vs = <<>> THEN <<>> ELSE Digits(Head(vs)) \o (IF Len(vs) > 1 THEN <<59>> ELSE <<>>) \o Join(Tail(vs))
SetSeq(S) == LET RECURSIVE T(_)
                 T(R) == IF R = {} THEN <<>> ELSE LET x == CHOOSE y \in R : TRUE IN <<x>> \o T(R \ {x})
             IN T(S)
Emit == sel # <<>> =>
   LET r == Parse(Join(sel)) IN
   PrintT(ToJson([s |-> Join(sel), r |-> IF r[1] = "ok" THEN <<"ok", [fg |-> r[2].fg, bg |-> r[2].bg, ul |-> r[2].ul, eff |-> SetSeq(r[2].eff)]>> ELSE r]))
=============================================================================
