---------------------------- MODULE Eval_VtParser ----------------------------
(* Oracle service: expected per-byte callbacks for given inputs (used when     *)
(* writing and re-running replay files).  INPUT: NDJSON lines {"i":[bytes]}.   *)
EXTENDS VtParser, Json, IOUtils, TLC
In == ndJsonDeserialize(IOEnv.INPUT)
RECURSIVE PerByte(_, _)
PerByte(p, bs) == IF bs = <<>> THEN <<>>
                  ELSE LET r == Step(p, Head(bs)) IN <<r[2]>> \o PerByte(r[1], Tail(bs))
ASSUME \A k \in 1..Len(In) : PrintT(ToJson([i |-> In[k].i, e |-> PerByte(Init0, In[k].i)]))
VARIABLE x
Init == x = 0
Next == UNCHANGED x
=============================================================================
