---------------------------- MODULE MC_AutoStream -----------------------------
(* C08: every sequence of up to Depth write-family calls (write, write_all,      *)
(* write_vectored, formatted write, flush, and at most one lock) over fragments   *)
(* that cut                                                                       *)
(* escape sequences and characters in awkward places.  Design-level invariant:    *)
(* what the strip-mode design (Strip!ScanBytes, one chunk per call) keeps is      *)
(* exactly the reference's visible text of the concatenation - independent of     *)
(* where the calls cut.  Every behaviour is emitted with the expected content of  *)
(* the inner writer for strip mode and pass-through mode.                         *)
EXTENDS Strip, TLC, Json
CONSTANT Depth
Frags == << <<97>>, <<27, 91>>, <<49, 109>>, <<27>>, <<93, 48, 59, 116>>, <<7>>, <<195, 169>>, <<10>>,
            <<195>>, <<169>>, <<27, 91, 51, 49, 109, 120, 27, 91, 109>> >>
TextFrag(k) == k \notin {9, 10}
Ops == {"write", "write_all", "vectored", "write_fmt"}
VARIABLES hist, sc, kept, all
vars == <<hist, sc, kept, all>>
Init == hist = <<>> /\ sc = SBInit /\ kept = <<>> /\ all = <<>>
Step(op, k) ==
  LET f == Frags[k]
      r == FoldBytes(SBEndChunk(sc), f)
  IN /\ hist' = Append(hist, <<op, f>>)
     /\ sc' = r[1]
     /\ kept' = kept \o r[2]
     /\ all' = all \o f
Next == /\ Len(hist) < Depth
        /\ \/ \E op \in Ops, k \in 1..Len(Frags) : (op = "write_fmt" => TextFrag(k)) /\ Step(op, k)
           \/ /\ hist' = Append(hist, <<"flush", <<>>>>) /\ UNCHANGED <<sc, kept, all>>
           \* AutoStream::lock / StripStream::lock (standard streams only): the locked stream continues with the
           \* same mode and the same carried scanner state - a no-op on everything the specification tracks
           \/ /\ \A i \in 1..Len(hist) : hist[i][1] # "lock"
              /\ hist' = Append(hist, <<"lock", <<>>>>) /\ UNCHANGED <<sc, kept, all>>
Spec == Init /\ [][Next]_vars
Select(s, q) == LET RECURSIVE Sel(_)
                    Sel(i) == IF i > Len(s) THEN <<>> ELSE (IF q[i] = "K" THEN <<s[i]>> ELSE <<>>) \o Sel(i + 1)
                IN Sel(1)
\* design-level: the scanner's kept flags agree with the reference wherever it is decided;
\* behaviours whose expected output is unique (no malformed characters) are emitted
DesignAgreesAndEmit ==
  LET q == Requirement(all) IN
  /\ \A i \in 1..Len(all) : (q[i] = "K" => kept[i]) /\ (q[i] = "D" => ~kept[i])
  /\ (hist # <<>> /\ \A i \in 1..Len(all) : q[i] \in {"K", "D"})
        => PrintT(ToJson([ops |-> hist, strip |-> Select(all, q), pass |-> all]))
=============================================================================
