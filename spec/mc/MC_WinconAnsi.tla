----------------------------- MODULE MC_WinconAnsi -----------------------------
(* C17: all 17 x 17 colour pairs x data from a small alphabet x inner-writer        *)
(* scripts: accept any prefix of the data, fail (Interrupted / WouldBlock / Other)  *)
(* at any of the up to four inner writes, or accept a code (fg, bg or the reset) only partially.          *)
(* Design check: the ideal algorithm (fg code, bg code, data, reset - each a        *)
(* separate inner write) satisfies WinconAnsi!CallOk under every script.  Every     *)
(* script is printed for replay against the real writers.                           *)
EXTENDS WinconAnsi, TLC, Json
CONSTANT AllData
Datas == IF AllData THEN << <<>>, <<97>>, <<97, 98, 10>>, <<195, 169, 226, 130, 172>>, <<32, 9, 120>>, <<32, 10>>, <<9>> >> ELSE << <<97, 98, 10>>, <<195, 169>>, <<>>, <<32, 10>> >>
Kinds == {"eI", "eW", "eO"}
FgCode(k) == IF k = 16 THEN <<>> ELSE <<27, 91>> \o (IF k < 8 THEN <<51, 48 + k>> ELSE <<57, 48 + k - 8>>) \o <<109>>
BgCode(k) == IF k = 16 THEN <<>> ELSE <<27, 91>> \o (IF k < 8 THEN <<52, 48 + k>> ELSE <<49, 48, 48 + k - 8>>) \o <<109>>
ResetCode == <<27, 91, 48, 109>>
VARIABLES fg, bg, d, failAt, kind, pre, shortAt
vars == <<fg, bg, d, failAt, kind, pre, shortAt>>
Init == /\ fg \in 0..16 /\ bg \in 0..16 /\ d \in 1..Len(Datas)
        /\ failAt \in 0..4 /\ kind \in Kinds /\ pre \in 0..3 /\ shortAt \in 0..4
        /\ (failAt = 0 => kind = "eO") /\ pre <= Len(Datas[d])
        \* shortAt = k > 0: the k-th inner write call is offered a code and accepts one byte of it (any of fg, bg, reset)
        /\ (shortAt # 0 => failAt = 0 /\ pre = Len(Datas[d]) /\ (fg # 16 \/ bg # 16)
                           /\ shortAt # 1 + (IF fg # 16 THEN 1 ELSE 0) + (IF bg # 16 THEN 1 ELSE 0)
                           /\ shortAt <= 2 + (IF fg # 16 THEN 1 ELSE 0) + (IF bg # 16 THEN 1 ELSE 0))
Next == UNCHANGED vars
Spec == Init /\ [][Next]_vars
\* the ideal algorithm's inner writes under the script; returns the observed call record
Ideal ==
  LET data  == Datas[d]
      nd    == fg # 16 \/ bg # 16
      steps == (IF fg # 16 THEN <<<<"code", FgCode(fg)>>>> ELSE <<>>) \o (IF bg # 16 THEN <<<<"code", BgCode(bg)>>>> ELSE <<>>)
               \o <<<<"data", data>>>> \o (IF nd THEN <<<<"code", ResetCode>>>> ELSE <<>>)
      RECURSIVE Go(_, _, _)
      Go(k, inner, n) ==
        IF k > Len(steps) THEN [inner |-> inner, ret |-> <<"ok", n>>]
        ELSE IF k = failAt THEN
             IF kind = "eI" /\ steps[k][1] = "code"
             THEN Go(k + 1, inner \o <<<<steps[k][2], "eI", 0>>, <<steps[k][2], "ok", Len(steps[k][2])>>>>, n)   \* std retries
             ELSE [inner |-> Append(inner, <<steps[k][2], kind, 0>>), ret |-> <<kind, 0>>]
        ELSE IF steps[k][1] = "data" THEN Go(k + 1, Append(inner, <<data, "ok", pre>>), pre)
        ELSE Go(k + 1, Append(inner, <<steps[k][2], "ok", Len(steps[k][2])>>), n)
  IN Go(1, <<>>, 0)
DesignOk == LET o == Ideal IN CallOk([fg |-> fg, bg |-> bg, data |-> Datas[d], inner |-> o.inner, ret |-> o.ret, whole |-> FALSE])
Emit == PrintT(ToJson([fg |-> fg, bg |-> bg, data |-> Datas[d], failAt |-> failAt, kind |-> kind, pre |-> pre, shortAt |-> shortAt, shortCode |-> (shortAt # 0)]))
=============================================================================
