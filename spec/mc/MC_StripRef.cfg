SPECIFICATION Spec
INVARIANT Projection
CHECK_DEADLOCK FALSE
CONSTANTS
 Depth = 5
 D_RunGroundRow = FALSE
 D_StrReset = FALSE
 D_Utf8CtlLeak = FALSE
 AcceptCtlLeak = FALSE
