----------------------------- MODULE Eval_Strip ------------------------------
(* Oracle service: requirement vectors for given inputs (replay files).        *)
EXTENDS Strip, Json, IOUtils, TLC
In == ndJsonDeserialize(IOEnv.INPUT)
ASSUME \A k \in 1..Len(In) : PrintT(ToJson([i |-> In[k].i, q |-> Requirement(In[k].i)]))
VARIABLE x
Init == x = 0
Next == UNCHANGED x
=============================================================================
