----------------------------- MODULE StyleRender -----------------------------
(***************************************************************************)
(* What a rendered anstyle value must be (C05, and the oracle of C16/C17):  *)
(* the bytes, run through the parser specification, are nothing but         *)
(* `CSI ... m` dispatches without intermediates or overflow, nothing is     *)
(* left pending, the Strip reference keeps none of them, and interpreting   *)
(* the parameter lists by the strict SGR reading from the default           *)
(* rendition gives exactly the style.                                       *)
(***************************************************************************)
EXTENDS Sgr, Strip
VP == INSTANCE VtParser WITH MaxParams <- 32, MaxInter <- 2, MaxOsc <- 16, ParamCap <- 65535, OscRawCap <- 0, Utf8On <- TRUE

ToSet(s) == {s[k] : k \in 1..Len(s)}
GrOf(st) == [fg |-> st.fg, bg |-> st.bg, ul |-> st.ul, eff |-> ToSet(st.eff)]

\* one pass over the bytes: parser run and strip requirement (shared by the predicates below)
Analyse(bytes) == [run |-> VP!Run(VP!Init0, bytes), req |-> Requirement(bytes)]

PureSgrA(a) ==
  /\ a.run[1].st = "Ground"
  /\ \A k \in 1..Len(a.run[2]) : LET e == a.run[2][k] IN e.k = "csi" /\ e.b = 109 /\ e.i = <<>> /\ ~e.ign
  /\ \A k \in 1..Len(a.req) : a.req[k] = "D"
PureSgr(bytes) == PureSgrA(Analyse(bytes))

ParamListsA(a) == [k \in 1..Len(a.run[2]) |-> a.run[2][k].p]
ParamLists(bytes) == ParamListsA(Analyse(bytes))

\* interpretation of rendered bytes from a given rendition
Interpret(gr, bytes) == ApplySeqs(gr, ParamLists(bytes))

RenderOk(gr, bytes) == LET a == Analyse(bytes) IN PureSgrA(a) /\ ApplySeqs(Default, ParamListsA(a)) = NormUl(gr)

\* reset form: empty exactly when plain; otherwise pure SGR returning any rendition to default
ResetOk(gr, bytes) ==
  IF gr = Default THEN bytes = <<>>
  ELSE bytes # <<>> /\ LET a == Analyse(bytes) IN PureSgrA(a) /\ ApplySeqs(NormUl(gr), ParamListsA(a)) = Default

\* every attribute of a style in isolation is distinguishable (self-consistency of the SGR model)
RoundTrip(gr) == ApplySeqs(Default, RenderSpec(gr)) = NormUl(gr)
=============================================================================
