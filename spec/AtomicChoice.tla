------------------------------ MODULE AtomicChoice ------------------------------
(***************************************************************************)
(* The process-wide colour choice (colorchoice::ColorChoice::global /       *)
(* write_global) as an atomic register (C19): every operation takes effect  *)
(* at one instant between its invocation and its response (linearizable).   *)
(* A history is a sequence of events                                        *)
(*    <<"inv", op>>, <<"res", op>>   op = [id, kind "w"|"r", val]           *)
(*    <<"start", v>>                 a quiescent point: register holds v    *)
(* Linearize(op) is the internal step.                                      *)
(***************************************************************************)
EXTENDS Naturals, Sequences, FiniteSets
RegInit == [reg |-> 0, pending |-> {}, done |-> {}]
\* pending: invoked, not yet linearized; done: linearized, response not yet seen
Invoke(s, op)    == [s EXCEPT !.pending = @ \cup {op}]
CanLinearize(s, op) == op \in s.pending /\ (op.kind = "r" => op.val = s.reg)
Linearize(s, op) == [reg |-> IF op.kind = "w" THEN op.val ELSE s.reg, pending |-> s.pending \ {op}, done |-> s.done \cup {op}]
CanRespond(s, op) == op \in s.done
Respond(s, op)   == [s EXCEPT !.done = @ \ {op}]
=============================================================================
