--------------------------------- MODULE Sgr ---------------------------------
(***************************************************************************)
(* SGR (Select Graphic Rendition) semantics after ECMA-48 8.3.117 and the   *)
(* xterm/ITU T.416 extensions, on an abstract terminal rendition            *)
(*     gr = [fg, bg, ul, eff]                                               *)
(* colours:  <<"none">> | <<"ansi", 0..15>> | <<"idx", 0..255>> |           *)
(*           <<"rgb", r, g, b>>       eff: subset of Effects                *)
(*                                                                         *)
(* The parameters of a `CSI ... m` come as the parser reports them:         *)
(* a sequence of groups, a group being the ':'-separated sub-parameters of  *)
(* one ';'-separated parameter.                                             *)
(*                                                                         *)
(* Interpretation is set-valued, Apply(gr, groups, reading) = the set of    *)
(* renditions a conforming interpretation may end in:                       *)
(*  reading = "strict"  every code has its standard effect, underline       *)
(*            kinds are independent flags (an anstyle Style can hold        *)
(*            several).  Used to judge RENDERED styles (C05, C16, C17).     *)
(*  reading = "lenient" used to judge the EXTRACTOR (C07, C14, C18):        *)
(*            codes the property is silent about (5 6 22-29 59) may have    *)
(*            their standard effect or none; selecting an underline kind    *)
(*            switches it on and may replace any of the kinds selected      *)
(*            before (terminal: all, flag reading: none);                   *)
(*            4:0 and 0 always clear every kind.                            *)
(***************************************************************************)
EXTENDS Naturals, Sequences, FiniteSets

None == <<"none">>
Default == [fg |-> None, bg |-> None, ul |-> None, eff |-> {}]
EffOrder == <<"BOLD", "DIMMED", "ITALIC", "UNDERLINE", "DOUBLE_UNDERLINE", "CURLY_UNDERLINE",
              "DOTTED_UNDERLINE", "DASHED_UNDERLINE", "BLINK", "INVERT", "HIDDEN", "STRIKETHROUGH">>
Effects == {EffOrder[k] : k \in 1..12}
ULS == {"UNDERLINE", "DOUBLE_UNDERLINE", "CURLY_UNDERLINE", "DOTTED_UNDERLINE", "DASHED_UNDERLINE"}
UlName(n) == CASE n = 1 -> "UNDERLINE" [] n = 2 -> "DOUBLE_UNDERLINE" [] n = 3 -> "CURLY_UNDERLINE"
               [] n = 4 -> "DOTTED_UNDERLINE" [] n = 5 -> "DASHED_UNDERLINE"
SIn(v, lo, hi) == v >= lo /\ v <= hi

SetCol(gr, tgt, c) == IF tgt = "fg" THEN [gr EXCEPT !.fg = c] ELSE IF tgt = "bg" THEN [gr EXCEPT !.bg = c] ELSE [gr EXCEPT !.ul = c]
Tgt(v) == IF v = 38 THEN "fg" ELSE IF v = 48 THEN "bg" ELSE "ul"
On(gr, e)  == [gr EXCEPT !.eff = @ \cup {e}]
Off(gr, s) == [gr EXCEPT !.eff = @ \ s]

(***************************************************************************)
(* Tokens: the attribute groups of a parameter list.                        *)
(*   <<"code", v>>  <<"ul", n>>  <<"col", tgt, colour>>                      *)
(*   <<"odd">>   a form outside the well-formed grammar (malformed extended *)
(*               colour, unknown ':' form, out-of-range value): no          *)
(*               requirement - generators stay out of these.                *)
(***************************************************************************)
ColOk(n) == n <= 255
RECURSIVE Tokens(_)
Tokens(gs) ==
  IF gs = <<>> THEN <<>>
  ELSE LET g == Head(gs) rest == Tail(gs) v == g[1] IN
    IF v \in {38, 48, 58} THEN
       IF Len(g) = 3 /\ g[2] = 5 THEN
            <<IF ColOk(g[3]) THEN <<"col", Tgt(v), <<"idx", g[3]>>>> ELSE <<"odd">>>> \o Tokens(rest)
       ELSE IF Len(g) = 5 /\ g[2] = 2 THEN
            <<IF ColOk(g[3]) /\ ColOk(g[4]) /\ ColOk(g[5]) THEN <<"col", Tgt(v), <<"rgb", g[3], g[4], g[5]>>>> ELSE <<"odd">>>> \o Tokens(rest)
       \* ITU T.416 form with a colour-space id in front of the components (38:2:<id>:r:g:b, id usually empty): xterm reads it
       \* like the five-element form
       ELSE IF Len(g) = 6 /\ g[2] = 2 THEN
            <<IF ColOk(g[4]) /\ ColOk(g[5]) /\ ColOk(g[6]) THEN <<"col", Tgt(v), <<"rgb", g[4], g[5], g[6]>>>> ELSE <<"odd">>>> \o Tokens(rest)
       ELSE IF Len(g) = 1 /\ Len(rest) >= 2 /\ rest[1] = <<5>> /\ Len(rest[2]) = 1 THEN
            <<IF ColOk(rest[2][1]) THEN <<"col", Tgt(v), <<"idx", rest[2][1]>>>> ELSE <<"odd">>>> \o Tokens(SubSeq(rest, 3, Len(rest)))
       ELSE IF Len(g) = 1 /\ Len(rest) >= 4 /\ rest[1] = <<2>> /\ Len(rest[2]) = 1 /\ Len(rest[3]) = 1 /\ Len(rest[4]) = 1 THEN
            <<IF ColOk(rest[2][1]) /\ ColOk(rest[3][1]) /\ ColOk(rest[4][1])
              THEN <<"col", Tgt(v), <<"rgb", rest[2][1], rest[3][1], rest[4][1]>>>> ELSE <<"odd">>>> \o Tokens(SubSeq(rest, 5, Len(rest)))
       ELSE <<<<"odd">>>>            \* malformed extended colour: the rest of the list is not interpreted
    ELSE IF v = 4 /\ Len(g) = 2 THEN <<IF g[2] <= 5 THEN <<"ul", g[2]>> ELSE <<"odd">>>> \o Tokens(rest)
    ELSE IF Len(g) = 1 THEN <<<<"code", v>>>> \o Tokens(rest)
    ELSE <<<<"odd">>>> \o Tokens(rest)

WellFormed(gs) == \A k \in 1..Len(Tokens(gs)) : Tokens(gs)[k] # <<"odd">>

\* selecting underline kind n >= 1
\* lenient: the selected kind is on; any of the previously selected kinds may have been replaced
\* (terminal reading: all of them; flag reading: none; anything in between)
SelUl(gr, n, reading) ==
  IF reading = "strict" THEN {On(gr, UlName(n))}
  ELSE {On(Off(gr, drop), UlName(n)) : drop \in SUBSET (gr.eff \cap ULS)}

SilentCode(gr, std, reading) == IF reading = "strict" THEN {std} ELSE {std, gr}

ApplyToken(gr, t, reading) ==
  IF t[1] = "col" THEN {SetCol(gr, t[2], t[3])}
  ELSE IF t[1] = "ul" THEN (IF t[2] = 0 THEN {Off(gr, ULS)} ELSE SelUl(gr, t[2], reading))
  ELSE IF t[1] = "odd" THEN {gr}
  ELSE LET v == t[2] IN
    CASE v = 0 -> {Default}
      [] v = 1 -> {On(gr, "BOLD")}
      [] v = 2 -> {On(gr, "DIMMED")}
      [] v = 3 -> {On(gr, "ITALIC")}
      [] v = 4 -> SelUl(gr, 1, reading)
      [] v = 21 -> SelUl(gr, 2, reading)
      [] v = 5 -> SilentCode(gr, On(gr, "BLINK"), reading)
      [] v = 6 -> SilentCode(gr, On(gr, "BLINK"), "lenient")
      [] v = 7 -> {On(gr, "INVERT")}
      [] v = 8 -> {On(gr, "HIDDEN")}
      [] v = 9 -> {On(gr, "STRIKETHROUGH")}
      [] v = 22 -> SilentCode(gr, Off(gr, {"BOLD", "DIMMED"}), reading)
      [] v = 23 -> SilentCode(gr, Off(gr, {"ITALIC"}), reading)
      [] v = 24 -> SilentCode(gr, Off(gr, ULS), reading)
      [] v = 25 -> SilentCode(gr, Off(gr, {"BLINK"}), reading)
      [] v = 27 -> SilentCode(gr, Off(gr, {"INVERT"}), reading)
      [] v = 28 -> SilentCode(gr, Off(gr, {"HIDDEN"}), reading)
      [] v = 29 -> SilentCode(gr, Off(gr, {"STRIKETHROUGH"}), reading)
      [] SIn(v, 30, 37) -> {[gr EXCEPT !.fg = <<"ansi", v - 30>>]}
      [] v = 39 -> {[gr EXCEPT !.fg = None]}
      [] SIn(v, 40, 47) -> {[gr EXCEPT !.bg = <<"ansi", v - 40>>]}
      [] v = 49 -> {[gr EXCEPT !.bg = None]}
      [] v = 59 -> SilentCode(gr, [gr EXCEPT !.ul = None], reading)
      [] SIn(v, 90, 97) -> {[gr EXCEPT !.fg = <<"ansi", v - 90 + 8>>]}
      [] SIn(v, 100, 107) -> {[gr EXCEPT !.bg = <<"ansi", v - 100 + 8>>]}
      [] OTHER -> {gr}                 \* codes without a representation change nothing

RECURSIVE ApplyTokens(_, _, _)
ApplyTokens(S, ts, reading) ==
  IF ts = <<>> THEN S
  ELSE ApplyTokens(UNION {ApplyToken(gr, Head(ts), reading) : gr \in S}, Tail(ts), reading)

Apply(gr, groups, reading) == ApplyTokens({gr}, Tokens(groups), reading)

\* the one result of the strict reading (deterministic)
ApplyStrict(gr, groups) == CHOOSE x \in Apply(gr, groups, "strict") : TRUE

(***************************************************************************)
(* Rendering a style the way the specification would (one sequence per      *)
(* attribute, declaration order) - used for round-trip self-consistency.    *)
(***************************************************************************)
EffCode(e) == CASE e = "BOLD" -> <<<<1>>>> [] e = "DIMMED" -> <<<<2>>>> [] e = "ITALIC" -> <<<<3>>>>
                [] e = "UNDERLINE" -> <<<<4>>>> [] e = "DOUBLE_UNDERLINE" -> <<<<21>>>>
                [] e = "CURLY_UNDERLINE" -> <<<<4, 3>>>> [] e = "DOTTED_UNDERLINE" -> <<<<4, 4>>>>
                [] e = "DASHED_UNDERLINE" -> <<<<4, 5>>>> [] e = "BLINK" -> <<<<5>>>> [] e = "INVERT" -> <<<<7>>>>
                [] e = "HIDDEN" -> <<<<8>>>> [] e = "STRIKETHROUGH" -> <<<<9>>>>
ColCode(tgt, c) ==
  LET base == IF tgt = "fg" THEN 30 ELSE IF tgt = "bg" THEN 40 ELSE 50
      ext  == IF tgt = "fg" THEN 38 ELSE IF tgt = "bg" THEN 48 ELSE 58
  IN IF c = None THEN <<>>
     ELSE IF c[1] = "ansi" /\ tgt # "ul" THEN <<<<<<(IF c[2] < 8 THEN base + c[2] ELSE base + 60 + c[2] - 8)>>>>>>
     ELSE IF c[1] = "ansi" THEN <<<<<<ext>>, <<5>>, <<c[2]>>>>>>
     ELSE IF c[1] = "idx" THEN <<<<<<ext>>, <<5>>, <<c[2]>>>>>>
     ELSE <<<<<<ext>>, <<2>>, <<c[2]>>, <<c[3]>>, <<c[4]>>>>>>
\* sequence of parameter lists (one per emitted CSI m)
RenderSpec(gr) ==
  LET RECURSIVE E(_)
      E(k) == IF k > 12 THEN <<>> ELSE (IF EffOrder[k] \in gr.eff THEN <<EffCode(EffOrder[k])>> ELSE <<>>) \o E(k + 1)
  IN E(1) \o ColCode("fg", gr.fg) \o ColCode("bg", gr.bg) \o ColCode("ul", gr.ul)
RECURSIVE ApplySeqs(_, _)
ApplySeqs(gr, seqs) == IF seqs = <<>> THEN gr ELSE ApplySeqs(ApplyStrict(gr, Head(seqs)), Tail(seqs))
\* underline colour from the 16-colour palette comes back as the same index of the 256 palette
NormUl(gr) == IF gr.ul # None /\ gr.ul[1] = "ansi" THEN [gr EXCEPT !.ul = <<"idx", gr.ul[2]>>] ELSE gr
=============================================================================
