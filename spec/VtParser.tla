------------------------------ MODULE VtParser ------------------------------
(***************************************************************************)
(* The escape-sequence parser: Williams' state machine (VtTable) plus the   *)
(* bookkeeping the diagram leaves to "actions": parameter collection with   *)
(* sub-parameters, intermediates, the ignore/overflow flag, DCS hook/put/   *)
(* unhook, OSC payload slicing, and out-of-band UTF-8 (Utf8).               *)
(*                                                                         *)
(* Pure functional style so that the same definitions serve model checking, *)
(* behaviour generation and trace validation:                               *)
(*     Step(p, b) = <<p', events>>                                          *)
(* One byte is one step (-> Parser::advance); inside a step the order is    *)
(*     exit action ; transition action ; entry action ; assume new state    *)
(* (-> perform_state_change).                                               *)
(*                                                                         *)
(* Parser state p:                                                          *)
(*   st    - VtTable state                                                  *)
(*   inter - collected intermediates/private markers (<= MaxInter)          *)
(*   ign   - overflow flag (too many intermediates or parameters)           *)
(*   pg    - closed parameter groups: Seq(Seq(Nat)), one entry per ';' group*)
(*   og    - sub-parameters of the open group collected so far (before ':') *)
(*   cur   - value of the parameter being typed                             *)
(*   osc   - bytes of the open OSC field; oscf - closed OSC fields           *)
(*   oscn  - number of closed OSC fields; oscraw - bytes stored so far      *)
(*   u8    - Utf8 decoder state                                             *)
(***************************************************************************)
EXTENDS VtTable, Utf8, Sequences, TLC

CONSTANTS MaxParams,   \* 32   total parameters + sub-parameters
          MaxInter,    \* 2
          MaxOsc,      \* 16   OSC fields
          ParamCap,    \* 65535 saturation value
          OscRawCap,   \* 0 = unbounded (heap buffer); n > 0 = fixed buffer of n bytes ("core")
          Utf8On       \* FALSE = built without the utf8 feature

Init0 == [ st |-> "Ground", inter |-> <<>>, ign |-> FALSE,
           pg |-> <<>>, og |-> <<>>, cur |-> 0,
           osc |-> <<>>, oscf |-> <<>>, oscn |-> 0, oscraw |-> 0,
           u8 |-> U8Idle ]

RECURSIVE SumLen(_)
SumLen(s) == IF s = <<>> THEN 0 ELSE Len(Head(s)) + SumLen(Tail(s))
PLen(p) == SumLen(p.pg) + Len(p.og)          \* -> Params::len
Full(p) == PLen(p) = MaxParams               \* -> Params::is_full

Min(a, b) == IF a < b THEN a ELSE b

\* -> Action::Clear
Clear(p) == [p EXCEPT !.inter = <<>>, !.ign = FALSE, !.cur = 0, !.pg = <<>>, !.og = <<>>]

\* close the open group for dispatch/hook (-> "if is_full {ignoring} else {push(param)}")
Fin(p) == IF Full(p) THEN [p EXCEPT !.ign = TRUE]
          ELSE [p EXCEPT !.pg = Append(p.pg, Append(p.og, p.cur)), !.og = <<>>]
\* what a Params iterator shows: closed groups, then a dangling open group if any
Shown(p) == IF p.og = <<>> THEN p.pg ELSE Append(p.pg, p.og)

EvPrint(c)   == [k |-> "print", c |-> c]
EvExec(b)    == [k |-> "exec", b |-> b]
EvPut(b)     == [k |-> "put", b |-> b]
EvUnhook     == [k |-> "unhook"]
\* what the Params value itself reports: len() counts parameters and sub-parameters, is_empty(), and the
\* Debug form "[a:b;c]" (-> params.rs)
RECURSIVE JoinNums(_, _)
JoinNums(ns, sep) == IF ns = <<>> THEN "" ELSE IF Len(ns) = 1 THEN ToString(ns[1]) ELSE ToString(ns[1]) \o sep \o JoinNums(Tail(ns), sep)
RECURSIVE JoinGroups(_)
JoinGroups(gs) == IF gs = <<>> THEN "" ELSE IF Len(gs) = 1 THEN JoinNums(gs[1], ":") ELSE JoinNums(gs[1], ":") \o ";" \o JoinGroups(Tail(gs))
ParamsDebug(gs) == "[" \o JoinGroups(gs) \o "]"
EvCsi(p, b)  == [k |-> "csi", p |-> Shown(p), i |-> p.inter, ign |-> p.ign, b |-> b, n |-> SumLen(Shown(p)), d |-> ParamsDebug(Shown(p))]
EvHook(p, b) == [k |-> "hook", p |-> Shown(p), i |-> p.inter, ign |-> p.ign, b |-> b, n |-> SumLen(Shown(p)), d |-> ParamsDebug(Shown(p))]
EvEsc(p, b)  == [k |-> "esc", i |-> p.inter, ign |-> p.ign, b |-> b]
EvOsc(f, bell) == [k |-> "osc", f |-> f, bell |-> bell]
EvPanic      == [k |-> "panic"]

\* -> Action::OscEnd + osc_dispatch
OscEndEv(p, b) ==
  LET fields == IF p.oscn = MaxOsc THEN p.oscf ELSE Append(p.oscf, p.osc)
  IN <<EvOsc(fields, b = 7)>>

OscRoom(p) == OscRawCap = 0 \/ p.oscraw < OscRawCap

\* transition/"in place" actions; returns <<p', events>>
Act(p, a, b) ==
  CASE a \in {"None", "Ignore"} -> <<p, <<>>>>
    [] a = "Print"   -> <<p, <<EvPrint(b)>>>>
    [] a = "Execute" -> <<p, <<EvExec(b)>>>>
    [] a = "Put"     -> <<p, <<EvPut(b)>>>>
    [] a = "Collect" ->
         IF Len(p.inter) = MaxInter THEN <<[p EXCEPT !.ign = TRUE], <<>>>>
         ELSE <<[p EXCEPT !.inter = Append(p.inter, b)], <<>>>>
    [] a = "Param" ->
         IF Full(p) THEN <<[p EXCEPT !.ign = TRUE], <<>>>>
         ELSE IF b = 59 THEN <<[p EXCEPT !.pg = Append(p.pg, Append(p.og, p.cur)), !.og = <<>>, !.cur = 0], <<>>>>
         ELSE IF b = 58 THEN <<[p EXCEPT !.og = Append(p.og, p.cur), !.cur = 0], <<>>>>
         ELSE <<[p EXCEPT !.cur = Min(ParamCap, Min(ParamCap, p.cur * 10) + (b - 48))], <<>>>>
    [] a = "CsiDispatch" -> LET q == Fin(p) IN <<q, <<EvCsi(q, b)>>>>
    [] a = "EscDispatch" -> <<p, <<EvEsc(p, b)>>>>
    [] a = "OscPut" ->
         IF ~OscRoom(p) THEN <<p, <<>>>>
         ELSE IF b = 59 THEN
            IF p.oscn = MaxOsc THEN <<p, <<>>>>
            ELSE <<[p EXCEPT !.oscf = Append(p.oscf, p.osc), !.osc = <<>>, !.oscn = p.oscn + 1], <<>>>>
         ELSE <<[p EXCEPT !.osc = Append(p.osc, b), !.oscraw = p.oscraw + 1], <<>>>>

\* out-of-band UTF-8: continuation of a character begun in Ground
Utf8Step(p, b) ==
  LET r == U8Cont(p.u8, b) IN
  IF r[2] = "more" THEN <<[p EXCEPT !.u8 = r[1]], <<>>>>
  ELSE IF r[2] = "char" THEN <<[p EXCEPT !.u8 = U8Idle, !.st = "Ground"], <<EvPrint(r[1].cp)>>>>
  ELSE <<[p EXCEPT !.u8 = U8Idle, !.st = "Ground"], <<EvPrint(65533)>>>>   \* U+FFFD, offending byte consumed

Step(p, b) ==
  IF p.st = "Utf8" THEN Utf8Step(p, b)
  ELSE
  LET arc == Arc(p.st, b)
      nxt == arc[1]
      a   == arc[2]
  IN IF a = "BeginUtf8" THEN
        IF Utf8On THEN <<[p EXCEPT !.st = "Utf8", !.u8 = U8Begin(b)], <<>>>>
        ELSE <<p, <<EvPanic>>>>
     ELSE IF nxt = "-" THEN Act(p, a, b)
     ELSE
       LET ex == IF p.st = "DcsPassthrough" THEN <<EvUnhook>>
                 ELSE IF p.st = "OscString" THEN OscEndEv(p, b) ELSE <<>>
           r1 == Act(p, a, b)
           p1 == r1[1]
           p2 == IF nxt \in {"Escape", "CsiEntry", "DcsEntry"} THEN Clear(p1)
                 ELSE IF nxt = "OscString" THEN [p1 EXCEPT !.osc = <<>>, !.oscf = <<>>, !.oscn = 0, !.oscraw = 0]
                 ELSE IF nxt = "DcsPassthrough" THEN Fin(p1)
                 ELSE p1
           en == IF nxt = "DcsPassthrough" THEN <<EvHook(p2, b)>> ELSE <<>>
       IN <<[p2 EXCEPT !.st = nxt], ex \o r1[2] \o en>>

\* n copies of byte b in one step.  Inside an OSC string a plain payload byte is stored n times (up to the room left in a
\* fixed buffer) without any callback; everything else is n single steps.
RECURSIVE StepMany(_, _, _)
StepMany(p, b, n) == IF n = 0 THEN <<p, <<>>>>
                     ELSE LET r == Step(p, b)
                              t == StepMany(r[1], b, n - 1)
                          IN <<t[1], r[2] \o t[2]>>
StepRun(p, b, n) ==
  IF p.st = "OscString" /\ Arc(p.st, b) = <<"-", "OscPut">> /\ b # 59 THEN
     LET room == IF OscRawCap = 0 THEN n ELSE IF p.oscraw >= OscRawCap THEN 0 ELSE Min(n, OscRawCap - p.oscraw)
     IN <<[p EXCEPT !.osc = p.osc \o [i \in 1..room |-> b], !.oscraw = p.oscraw + room], <<>>>>
  ELSE StepMany(p, b, n)

\* fold over a byte sequence: <<p', events (flattened)>>
RECURSIVE Run(_, _)
Run(p, bs) == IF bs = <<>> THEN <<p, <<>>>>
              ELSE LET r == Step(p, Head(bs))
                       t == Run(r[1], Tail(bs))
                   IN <<t[1], r[2] \o t[2]>>

(***************************************************************************)
(* State invariants (the facts that make the unsafe blocks of the crate     *)
(* sound, and the documented limits).                                       *)
(***************************************************************************)
LimitsOk(p) ==
  /\ PLen(p) <= MaxParams
  /\ Len(p.inter) <= MaxInter
  /\ p.oscn <= MaxOsc /\ Len(p.oscf) = p.oscn
  /\ p.cur <= ParamCap
  /\ \A i \in 1..Len(p.pg) : Len(p.pg[i]) >= 1 /\ \A j \in 1..Len(p.pg[i]) : p.pg[i][j] <= ParamCap
  /\ (OscRawCap > 0 => p.oscraw <= OscRawCap)
  /\ p.oscraw = SumLen(p.oscf) + Len(p.osc)
  /\ p.st \in States
  /\ (p.st = "Utf8") = (p.u8.need > 0)

EventLimitsOk(e) ==
  /\ (e.k \in {"csi", "hook"} => SumLen(e.p) <= MaxParams /\ Len(e.i) <= MaxInter)
  /\ (e.k = "esc" => Len(e.i) <= MaxInter)
  /\ (e.k = "osc" => Len(e.f) <= MaxOsc /\ Len(e.f) >= 1)
=============================================================================
