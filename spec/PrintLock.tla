------------------------------- MODULE PrintLock -------------------------------
(***************************************************************************)
(* Printing through the shared standard streams (C19).  One print call      *)
(* (print!, println!, write_all, write!) by thread t is                     *)
(*     Acquire(t) ; WriteFragment(t)* ; Release(t)                          *)
(* - the stream lock is taken once per CALL because AutoStream/StripStream  *)
(* forward write_all and write_fmt to the locked inner stream instead of    *)
(* looping over write.  PerFragment = TRUE models what a non-forwarded      *)
(* write_fmt / write_all does: the lock is taken per fragment.              *)
(*   out  the fragments in the order they reached the stream:               *)
(*        <<thread, call, fragment index>>                                  *)
(* NoInterleave: out is a concatenation of whole records.                   *)
(***************************************************************************)
EXTENDS Naturals, Sequences, FiniteSets
CONSTANTS Threads, Calls, Frags, PerFragment

VARIABLES holder, pc, out
vars == <<holder, pc, out>>
\* pc[t] = <<call, fragment, phase>>, phase "idle" | "locked"
Init == holder = 0 /\ pc = [t \in Threads |-> <<1, 1, "idle">>] /\ out = <<>>

Acquire(t) == /\ holder = 0 /\ pc[t][3] = "idle" /\ pc[t][1] <= Calls
              /\ holder' = t /\ pc' = [pc EXCEPT ![t][3] = "locked"] /\ UNCHANGED out
WriteFragment(t) ==
  /\ holder = t /\ pc[t][3] = "locked"
  /\ out' = Append(out, <<t, pc[t][1], pc[t][2]>>)
  /\ IF pc[t][2] = Frags
     THEN /\ pc' = [pc EXCEPT ![t] = <<pc[t][1] + 1, 1, "idle">>] /\ holder' = 0          \* Release after the last fragment
     ELSE IF PerFragment
          THEN /\ pc' = [pc EXCEPT ![t] = <<pc[t][1], pc[t][2] + 1, "idle">>] /\ holder' = 0   \* lock dropped between fragments
          ELSE /\ pc' = [pc EXCEPT ![t][2] = pc[t][2] + 1] /\ UNCHANGED holder
Next == \E t \in Threads : Acquire(t) \/ WriteFragment(t)
Spec == Init /\ [][Next]_vars

\* fragments of one call are contiguous and in order
NoInterleave ==
  \A i \in 1..Len(out) :
     out[i][3] > 1 => (i > 1 /\ out[i - 1] = <<out[i][1], out[i][2], out[i][3] - 1>>)
MutualExclusion == holder \in Threads \cup {0}
=============================================================================
