----------------------------- MODULE StyleAlgebra -----------------------------
(***************************************************************************)
(* The value algebra of anstyle (C13).                                      *)
(*  Effects  = subsets of the twelve effects; bit i-1 <-> i-th DECLARED     *)
(*             effect (Sgr!EffOrder).  Bits/SetOf convert.                  *)
(*  Style    = [fg, bg, ul, eff]; setters change one field, getters read it *)
(*  Colours  : AnsiColor k (0..15) <-> Ansi256 index k; bright(b) changes   *)
(*             only the brightness bit (k % 8 is the hue).                  *)
(* The laws are stated as predicates over OBSERVED operation results so     *)
(* that Trace_StyleAlgebra can check batches of real calls.                 *)
(***************************************************************************)
EXTENDS Sgr

Pow2(k) == 2 ^ k
BitSet(n, k) == (n \div Pow2(k)) % 2 = 1                 \* bit k (0-based) of n
SetOf(n) == {EffOrder[k] : k \in {j \in 1..12 : BitSet(n, j - 1)}}
RECURSIVE BitsUpTo(_, _)
BitsUpTo(S, k) == IF k = 0 THEN 0 ELSE (IF EffOrder[k] \in S THEN Pow2(k - 1) ELSE 0) + BitsUpTo(S, k - 1)
Bits(S) == BitsUpTo(S, 12)
\* members in declaration order
InOrder(S) == SelectSeq(EffOrder, LAMBDA e : e \in S)

\* what an iterator over the set still has to yield after k calls of next()
IterLeft(a, k) == LET n == Cardinality(SetOf(a)) IN IF k >= n THEN 0 ELSE n - k

\* expected result of a binary operation on effect sets (as bits)
BinOp(op, a, b) ==
  CASE op = "insert" -> Bits(SetOf(a) \cup SetOf(b))
    [] op \in {"or", "or_assign"} -> Bits(SetOf(a) \cup SetOf(b))
    [] op = "remove" -> Bits(SetOf(a) \ SetOf(b))
    [] op \in {"sub", "sub_assign"} -> Bits(SetOf(a) \ SetOf(b))
    [] op = "set1"   -> Bits(SetOf(a) \cup SetOf(b))
    [] op = "set0"   -> Bits(SetOf(a) \ SetOf(b))
    [] op = "contains" -> IF SetOf(b) \subseteq SetOf(a) THEN 1 ELSE 0

\* colour constructors: c.on(b) is the style with exactly these two colours, c.on_default() with exactly the foreground
OnStyle(fg, bg) == [fg |-> fg, bg |-> bg, ul |-> None, eff |-> {}]
IsPlainStyle(g) == g.fg = None /\ g.bg = None /\ g.ul = None /\ g.eff = {}
\* conversions between the colour types keep the value (From impls): which -> expected, given the raw numbers n
ConvOf(which, n) ==
  CASE which = "ansi->color"  -> <<"ansi", n[1]>>
    [] which = "idx->color"   -> <<"idx", n[1]>>
    [] which = "u8->color"    -> <<"idx", n[1]>>
    [] which = "rgb->color"   -> <<"rgb", n[1], n[2], n[3]>>
    [] which = "tuple->color" -> <<"rgb", n[1], n[2], n[3]>>
    [] which = "ansi->idx"    -> <<"idx", n[1]>>
    [] which = "u8->idx"      -> <<"idx", n[1]>>
    [] which = "tuple->rgb"   -> <<"rgb", n[1], n[2], n[3]>>

\* AnsiColor index arithmetic
Hue(k) == k % 8
Bright(k, yes) == Hue(k) + (IF yes THEN 8 ELSE 0)
IsBright(k) == k >= 8
=============================================================================
