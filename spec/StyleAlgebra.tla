----------------------------- MODULE StyleAlgebra -----------------------------
(***************************************************************************)
(* The value algebra of anstyle (C13).                                      *)
(*  Effects  = subsets of the twelve effects; bit i-1 <-> i-th DECLARED     *)
(*             effect (Sgr!EffOrder).  Bits/SetOf convert.                  *)
(*  Style    = [fg, bg, ul, eff]; setters change one field, getters read it *)
(*  Colours  : AnsiColor k (0..15) <-> Ansi256 index k; bright(b) changes   *)
(*             only the brightness bit (k % 8 is the hue).                  *)
(* The laws are stated as predicates over OBSERVED operation results so     *)
(* that Trace_StyleAlgebra can check batches of real calls.                 *)
(***************************************************************************)
EXTENDS Sgr

Pow2(k) == 2 ^ k
BitSet(n, k) == (n \div Pow2(k)) % 2 = 1                 \* bit k (0-based) of n
SetOf(n) == {EffOrder[k] : k \in {j \in 1..12 : BitSet(n, j - 1)}}
RECURSIVE BitsUpTo(_, _)
BitsUpTo(S, k) == IF k = 0 THEN 0 ELSE (IF EffOrder[k] \in S THEN Pow2(k - 1) ELSE 0) + BitsUpTo(S, k - 1)
Bits(S) == BitsUpTo(S, 12)
\* members in declaration order
InOrder(S) == SelectSeq(EffOrder, LAMBDA e : e \in S)

\* expected result of a binary operation on effect sets (as bits)
BinOp(op, a, b) ==
  CASE op = "insert" -> Bits(SetOf(a) \cup SetOf(b))
    [] op = "or"     -> Bits(SetOf(a) \cup SetOf(b))
    [] op = "remove" -> Bits(SetOf(a) \ SetOf(b))
    [] op = "sub"    -> Bits(SetOf(a) \ SetOf(b))
    [] op = "set1"   -> Bits(SetOf(a) \cup SetOf(b))
    [] op = "set0"   -> Bits(SetOf(a) \ SetOf(b))
    [] op = "contains" -> IF SetOf(b) \subseteq SetOf(a) THEN 1 ELSE 0

\* AnsiColor index arithmetic
Hue(k) == k % 8
Bright(k, yes) == Hue(k) + (IF yes THEN 8 ELSE 0)
IsBright(k) == k >= 8
=============================================================================
