------------------------------ MODULE WinconAnsi ------------------------------
(***************************************************************************)
(* anstyle_wincon::WinconStream::write_colored for writers that are not a   *)
(* legacy console (C17).  Observational specification of one call:          *)
(*   fg, bg  requested colours: 0..15, or 16 = none                         *)
(*   data    the bytes to show (plain text: no escape sequences)            *)
(*   inner   the inner writes: <<bytes, result, accepted>>, result "ok" |   *)
(*           "eI" | "eW" | "eO"                                             *)
(*   ret     <<"ok", n>> or <<kind, 0>>                                     *)
(* Judged by running everything the inner writer ACCEPTED through the       *)
(* parser specification and the strict SGR reading:                         *)
(*   - the visible characters are exactly data[1..n], n = the reported      *)
(*     count; each is shown in exactly the requested colours;               *)
(*   - afterwards the rendition is the default again;                       *)
(*   - with neither colour nothing but data[1..n] is emitted;               *)
(*   - the Strip reference gives back data[1..n];                           *)
(*   - an inner failure surfaces with its kind (Interrupted inside a        *)
(*     write_all of a code is retried by std and is not a failure).         *)
(***************************************************************************)
EXTENDS Sgr, Strip
VP == INSTANCE VtParser WITH MaxParams <- 32, MaxInter <- 2, MaxOsc <- 16, ParamCap <- 65535, OscRawCap <- 0, Utf8On <- TRUE

ColOf(k) == IF k = 16 THEN None ELSE <<"ansi", k>>
Want(fg, bg) == [Default EXCEPT !.fg = ColOf(fg), !.bg = ColOf(bg)]

RECURSIVE AccBytes(_)
AccBytes(inner) == IF inner = <<>> THEN <<>> ELSE SubSeq(Head(inner)[1], 1, Head(inner)[3]) \o AccBytes(Tail(inner))

\* walk the parser events: every visible character must be shown under `want`; returns <<ok, gr, shown bytes>>
RECURSIVE Shown(_, _, _, _)
Shown(evs, gr, want, acc) ==
  IF evs = <<>> THEN <<TRUE, gr, acc>>
  ELSE LET e == Head(evs) IN
    IF e.k = "print" \/ (e.k = "exec" /\ e.b \in {9, 10, 12, 13}) THEN
       IF gr # want THEN <<FALSE, gr, acc>>
       ELSE Shown(Tail(evs), gr, want, acc \o (IF e.k = "print" THEN U8Encode(e.c) ELSE <<e.b>>))
    ELSE IF e.k = "csi" /\ e.b = 109 /\ e.i = <<>> /\ ~e.ign THEN Shown(Tail(evs), ApplyStrict(gr, e.p), want, acc)
    ELSE <<FALSE, gr, acc>>          \* anything else is not "a colour code, data, a reset"

Kept(bytes) == LET q == Requirement(bytes) IN SelectSeq([i \in 1..Len(bytes) |-> <<bytes[i], q[i]>>], LAMBDA p : p[2] = "K")

CallOk(e) ==
  LET acc  == AccBytes(e.inner)
      kind == e.ret[1]
      hard == \E k \in 1..Len(e.inner) : e.inner[k][2] \in {"eW", "eO"}
  IN IF kind = "ok" THEN
        LET n    == e.ret[2]
            want == SubSeq(e.data, 1, n)
            run  == VP!Run(VP!Init0, acc)
            sh   == Shown(run[2], Default, Want(e.fg, e.bg), <<>>)
            kept == Kept(acc)
        IN /\ n <= Len(e.data) /\ ~hard
           /\ sh[1] /\ sh[3] = want /\ sh[2] = Default /\ run[1].st = "Ground"
           /\ [i \in 1..Len(kept) |-> kept[i][1]] = want
           /\ ((e.fg = 16 /\ e.bg = 16) => acc = want)
     ELSE /\ kind \in {"eI", "eW", "eO", "eZ"}
          /\ (\E k \in 1..Len(e.inner) : e.inner[k][2] = kind \/ (kind = "eZ" /\ e.inner[k][2] = "ok" /\ e.inner[k][3] = 0))
          \* Interrupted surfaces only from the DATA write (a single `write`); on a code it is retried, not returned
          /\ (kind = "eI" => LET last == e.inner[Len(e.inner)] IN last[2] = "eI" /\ last[1] = e.data)
=============================================================================
