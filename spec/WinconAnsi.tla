------------------------------ MODULE WinconAnsi ------------------------------
(***************************************************************************)
(* anstyle_wincon::WinconStream::write_colored for writers that are not a   *)
(* legacy console (C17).  Observational specification of one call:          *)
(*   fg, bg  requested colours: 0..15, or 16 = none                         *)
(*   data    the bytes to show (plain text: no escape sequences)            *)
(*   inner   the inner writes: <<bytes, result, accepted>>, result "ok" |   *)
(*           "eI" | "eW" | "eO"                                             *)
(*   ret     <<"ok", n>> or <<kind, 0>>                                     *)
(* Judged by running everything the inner writer ACCEPTED through the       *)
(* parser specification and the strict SGR reading:                         *)
(*   - the data is offered in one inner write; the reported count n is     *)
(*     what that write accepted (ANY prefix, also inside a character);      *)
(*     the codes in front of it select exactly the requested colours;       *)
(*   - afterwards the rendition is the default again;                       *)
(*   - with neither colour nothing but data[1..n] is emitted;               *)
(*   - the Strip reference gives back data[1..n];                           *)
(*   - an inner failure surfaces with its kind (Interrupted inside a        *)
(*     write_all of a code is retried by std and is not a failure).         *)
(***************************************************************************)
EXTENDS Sgr, Strip
VP == INSTANCE VtParser WITH MaxParams <- 32, MaxInter <- 2, MaxOsc <- 16, ParamCap <- 65535, OscRawCap <- 0, Utf8On <- TRUE

ColOf(k) == IF k = 16 THEN None ELSE <<"ansi", k>>
Want(fg, bg) == [Default EXCEPT !.fg = ColOf(fg), !.bg = ColOf(bg)]

RECURSIVE AccBytes(_)
AccBytes(inner) == IF inner = <<>> THEN <<>> ELSE SubSeq(Head(inner)[1], 1, Head(inner)[3]) \o AccBytes(Tail(inner))

\* walk the parser events: every visible character must be shown under `want`; returns <<ok, gr, shown bytes>>
RECURSIVE Shown(_, _, _, _)
Shown(evs, gr, want, acc) ==
  IF evs = <<>> THEN <<TRUE, gr, acc>>
  ELSE LET e == Head(evs) IN
    IF e.k = "print" \/ (e.k = "exec" /\ e.b \in {9, 10, 12, 13}) THEN
       IF gr # want THEN <<FALSE, gr, acc>>
       ELSE Shown(Tail(evs), gr, want, acc \o (IF e.k = "print" THEN U8Encode(e.c) ELSE <<e.b>>))
    ELSE IF e.k = "csi" /\ e.b = 109 /\ e.i = <<>> /\ ~e.ign THEN Shown(Tail(evs), ApplyStrict(gr, e.p), want, acc)
    ELSE <<FALSE, gr, acc>>          \* anything else is not "a colour code, data, a reset"

Kept(bytes) == LET q == Requirement(bytes) IN SelectSeq([i \in 1..Len(bytes) |-> <<bytes[i], q[i]>>], LAMBDA p : p[2] = "K")

\* the inner write that carries the data: it offers exactly `data` (codes start with ESC, data is plain text)
IsDataWrite(w, data) == data # <<>> /\ w[1] = data
RECURSIVE AccWhere(_, _, _)
AccWhere(inner, data, want) ==      \* accepted bytes of the code writes before (want = "pre") / after ("post") the data write
  IF inner = <<>> THEN <<>>
  ELSE LET w == Head(inner) IN
       IF IsDataWrite(w, data) THEN (IF want = "pre" THEN <<>> ELSE AccBytes(SelectSeq(Tail(inner), LAMBDA x : ~IsDataWrite(x, data))))
       ELSE (IF want = "pre" THEN SubSeq(w[1], 1, w[3]) ELSE <<>>) \o AccWhere(Tail(inner), data, want)

\* byte-level shape of a run of codes: ( ESC [ (digit | ';' | ':')* m )*  - nothing else, not even bytes the parser would ignore
RECURSIVE SgrShape(_, _)
SgrShape(bs, inSeq) ==
  IF bs = <<>> THEN ~inSeq
  ELSE IF ~inSeq THEN Len(bs) >= 2 /\ bs[1] = 27 /\ bs[2] = 91 /\ SgrShape(SubSeq(bs, 3, Len(bs)), TRUE)
  ELSE IF bs[1] = 109 THEN SgrShape(Tail(bs), FALSE)
  ELSE bs[1] \in 48..59 /\ SgrShape(Tail(bs), TRUE)

\* codes only: no visible character, nothing but SGR; returns <<ok, rendition afterwards>>
CodesOnly(bytes, gr0) ==
  LET run == VP!Run(VP!Init0, bytes)
      sh  == Shown(run[2], gr0, [fg |-> <<"impossible">>, bg |-> None, ul |-> None, eff |-> {}], <<>>)
  IN <<SgrShape(bytes, FALSE) /\ sh[1] /\ sh[3] = <<>> /\ run[1].st = "Ground", sh[2]>>

\* writers observed only through their final content (Vec<u8>, File): one record holding everything; the data must sit in it
\* between codes that select the colours and codes that restore the default
WholeOk(e) ==
  LET acc == AccBytes(e.inner)
      n   == e.ret[2]
  IN /\ e.ret[1] = "ok" /\ n = Len(e.data)
     /\ \E i \in 0..(Len(acc) - n) :
          /\ SubSeq(acc, i + 1, i + n) = e.data
          /\ LET pre  == SubSeq(acc, 1, i)
                 post == SubSeq(acc, i + n + 1, Len(acc))
                 p    == CodesOnly(pre, Default)
                 q    == CodesOnly(post, p[2])
             IN /\ p[1] /\ p[2] = Want(e.fg, e.bg) /\ q[1] /\ q[2] = Default
                /\ ((e.fg = 16 /\ e.bg = 16) => pre = <<>> /\ post = <<>>)
                /\ Kept(pre) = <<>> /\ Kept(post) = <<>>

CallOk(e) ==
  IF e.whole THEN WholeOk(e) ELSE
  LET kind == e.ret[1]
      hard == \E k \in 1..Len(e.inner) : e.inner[k][2] \in {"eW", "eO"}
      dataWrites == {k \in 1..Len(e.inner) : IsDataWrite(e.inner[k], e.data)}
  IN IF kind = "ok" /\ e.data = <<>> THEN
        \* nothing to show: whatever is emitted consists of codes only and leaves the default state; nothing at all without colours
        LET all == AccBytes(e.inner)
            c   == CodesOnly(all, Default)
        IN /\ e.ret[2] = 0 /\ ~hard /\ c[1] /\ c[2] = Default /\ Kept(all) = <<>> /\ ((e.fg = 16 /\ e.bg = 16) => all = <<>>)
           \* the frame is emitted around empty data as well: codes that select the colours, then codes that restore the default
           /\ ((e.fg # 16 \/ e.bg # 16) =>
                 \E i \in 1..Len(all) : LET p1 == CodesOnly(SubSeq(all, 1, i), Default)
                                            p2 == CodesOnly(SubSeq(all, i + 1, Len(all)), p1[2])
                                        IN p1[1] /\ p1[2] = Want(e.fg, e.bg) /\ p2[1] /\ p2[2] = Default)
     ELSE IF kind = "ok" THEN
        LET n    == e.ret[2]
            pre  == AccWhere(e.inner, e.data, "pre")
            post == AccWhere(e.inner, e.data, "post")
            p    == CodesOnly(pre, Default)
            q    == CodesOnly(post, p[2])
        IN /\ n <= Len(e.data) /\ ~hard
           \* the data goes out in ONE inner write (a prefix of it is accepted: any prefix, also one that ends inside a
           \* character) and the call returns exactly the number of bytes that write accepted
           /\ IF e.data = <<>> THEN n = 0 /\ dataWrites = {}
              ELSE Cardinality(dataWrites) = 1 /\ (\A k \in dataWrites : e.inner[k][2] = "ok" /\ e.inner[k][3] = n)
           \* in front of the data: codes only, selecting exactly the requested colours; behind it: codes only, restoring the default
           /\ p[1] /\ p[2] = Want(e.fg, e.bg)
           /\ q[1] /\ q[2] = Default
           /\ ((e.fg = 16 /\ e.bg = 16) => pre = <<>> /\ post = <<>>)
           \* the Strip reference keeps nothing of the codes (so stripping the output gives the accepted data back)
           /\ Kept(pre) = <<>> /\ Kept(post) = <<>>
     ELSE /\ kind \in {"eI", "eW", "eO", "eZ"}
          /\ (\E k \in 1..Len(e.inner) : e.inner[k][2] = kind \/ (kind = "eZ" /\ e.inner[k][2] = "ok" /\ e.inner[k][3] = 0))
          \* Interrupted surfaces only from the DATA write (a single `write`); on a code it is retried, not returned
          /\ (kind = "eI" => LET last == e.inner[Len(e.inner)] IN last[2] = "eI" /\ last[1] = e.data)
          \* a failure ends the call: the failed inner write is the last one (nothing is written behind an error)
          /\ (kind \in {"eW", "eO"} => e.inner[Len(e.inner)][2] = kind)
=============================================================================
