---------------------------- MODULE WinconExtract ----------------------------
(***************************************************************************)
(* Styled-run extraction (anstream::adapter::WinconBytes; consumed by the    *)
(* legacy-console stream C18 and the SVG renderer C14).                     *)
(*                                                                         *)
(* The extractor is the parser specification driving the SGR semantics:     *)
(*   print(c), exec(TAB/LF/FF/CR)  -> visible character, tagged with the    *)
(*                                    rendition in effect                   *)
(*   csi(params, no intermediates/private marker, no overflow, final 'm')   *)
(*                                 -> rendition := Sgr!Apply (lenient)      *)
(*   everything else               -> nothing                               *)
(* Runs are compared after merging neighbours of equal style, i.e. as the   *)
(* sequence of (style, character) pairs.                                    *)
(*                                                                         *)
(* Because the lenient SGR reading is set-valued the judge carries the SET  *)
(* of renditions consistent with everything observed so far; an observed    *)
(* style must be one of them and narrows the set.  A parameter list outside *)
(* the well-formed grammar ("odd") makes the BASE rendition unknown until   *)
(* the next full reset; what later well-formed sequences set on top of it   *)
(* is still required (SgrStep, KnownOk).                                    *)
(*                                                                         *)
(* Deviation flags (judge tolerances for recorded findings):                *)
(*   AcceptSgrStateLeak      F6: interpreter state survives a parameter     *)
(*   AcceptUnderlineOffPartial F7: 4:0 clears only the single underline     *)
(*   AcceptIntermediatesIgnored F8: CSI with intermediates/markers applied  *)
(***************************************************************************)
EXTENDS Sgr, Sequences
CONSTANTS AcceptIntermediatesIgnored
VP == INSTANCE VtParser WITH MaxParams <- 32, MaxInter <- 2, MaxOsc <- 16, ParamCap <- 65535, OscRawCap <- 0, Utf8On <- TRUE

ToSet(s) == {s[k] : k \in 1..Len(s)}
GrOfStyle(st) == [fg |-> st.fg, bg |-> st.bg, ul |-> st.ul, eff |-> ToSet(st.eff)]

\* judge state: parser, candidate renditions, wildcard flag
XInit == [ps |-> VP!Init0, S |-> {Default}, wild |-> FALSE]

IsSgr(e) == e.k = "csi" /\ e.b = 109 /\ ~e.ign /\ (e.i = <<>> \/ AcceptIntermediatesIgnored)
IsVisible(e) == e.k = "print" \/ (e.k = "exec" /\ e.b \in {9, 10, 12, 13})
CharOf(e) == IF e.k = "print" THEN e.c ELSE e.b

(* After an "odd" list the rendition is unknown - but only the rendition: the NEXT sequence is interpreted on its own, on      *)
(* top of whatever is in force (nothing of one control function leaks into the next).  The unknown base is represented by     *)
(* two renditions that differ in every field and in every single effect; well-formed lists are applied to both (and to all     *)
(* their lenient alternatives); a field - or one effect - on which ALL candidates then agree was set by a sequence since, and   *)
(* is known (KnownOk).  A full reset as the last token ends the wild phase.                                                     *)
\* (the stand-in colours are values NO sequence can select: agreement of the two candidates on a colour then really means
\*  "set since" - with real palette entries as stand-ins, `38:5:205` after an odd list once agreed with a stand-in background)
W1 == [fg |-> <<"unknown", 1>>, bg |-> <<"unknown", 2>>, ul |-> <<"unknown", 3>>, eff |-> {}]
W2 == [fg |-> <<"unknown", 4>>, bg |-> <<"unknown", 5>>, ul |-> <<"unknown", 6>>, eff |-> Effects]
KnownOk(S, g) ==
  LET c == CHOOSE c \in S : TRUE IN
  /\ ((\A a \in S : a.fg = c.fg) => g.fg = c.fg)
  /\ ((\A a \in S : a.bg = c.bg) => g.bg = c.bg)
  /\ ((\A a \in S : a.ul = c.ul) => g.ul = c.ul)
  /\ \A e \in Effects : ((\A a \in S : (e \in a.eff) = (e \in c.eff)) => ((e \in g.eff) = (e \in c.eff)))

SgrStep(x, p) ==
  IF ~WellFormed(p) THEN [x EXCEPT !.wild = TRUE, !.S = {W1, W2}]
  ELSE LET S2 == UNION {Apply(g, p, "lenient") : g \in x.S}
           \* a full reset as the LAST token pins the rendition again
           ts == Tokens(p)
       IN IF x.wild /\ ts[Len(ts)] = <<"code", 0>> THEN [x EXCEPT !.wild = FALSE, !.S = {Default}]
          ELSE [x EXCEPT !.S = S2]

(* Walk the bytes of one call; obs = observed (style, code point) pairs of that call, k = next      *)
(* unmatched observation.  Returns <<x', k', ok>>.  DEL is dropped from both sides before matching  *)
(* (the parser prints it, the property does not count it as text).                                   *)
RECURSIVE WalkEvents(_, _, _, _)
WalkEvents(x, evs, obs, k) ==
  IF evs = <<>> THEN <<x, k, TRUE>>
  ELSE LET e == Head(evs) IN
    IF IsVisible(e) /\ CharOf(e) # 127 THEN
       IF k > Len(obs) \/ obs[k][2] # CharOf(e) THEN <<x, k, FALSE>>
       ELSE IF x.wild THEN (IF KnownOk(x.S, GrOfStyle(obs[k][1])) THEN WalkEvents(x, Tail(evs), obs, k + 1) ELSE <<x, k, FALSE>>)
       ELSE LET g  == GrOfStyle(obs[k][1])
                S2 == {c \in x.S : c = g}
            IN IF S2 = {} THEN <<x, k, FALSE>> ELSE WalkEvents([x EXCEPT !.S = S2], Tail(evs), obs, k + 1)
    ELSE IF IsSgr(e) THEN WalkEvents(SgrStep(x, e.p), Tail(evs), obs, k)
    ELSE WalkEvents(x, Tail(evs), obs, k)

RECURSIVE Walk(_, _, _, _)
Walk(x, bytes, obs, k) ==
  IF bytes = <<>> THEN <<x, k, TRUE>>
  ELSE LET r == VP!Step(x.ps, Head(bytes))
           w == WalkEvents([x EXCEPT !.ps = r[1]], r[2], obs, k)
       IN IF w[3] THEN Walk(w[1], Tail(bytes), obs, w[2]) ELSE w

\* flatten runs <<style, text>> into pairs, dropping DEL
RECURSIVE Flat(_)
Flat(runs) ==
  IF runs = <<>> THEN <<>>
  ELSE LET st == Head(runs)[1]
           tx == SelectSeq(Head(runs)[2], LAMBDA c : c # 127)
       IN [i \in 1..Len(tx) |-> <<st, tx[i]>>] \o Flat(Tail(runs))

\* one extract_next call: <<x', ok>>
CallOk(x, bytes, runs) ==
  LET obs == Flat(runs)
      w   == Walk(x, bytes, obs, 1)
  IN <<w[1], w[3] /\ w[2] = Len(obs) + 1>>

\* the set of renditions allowed after interpreting `bytes` from the default rendition (enumeration oracle)
AllowedAfter(bytes) ==
  LET RECURSIVE F(_, _)
      F(x, bs) == IF bs = <<>> THEN x
                  ELSE LET r == VP!Step(x.ps, Head(bs))
                           RECURSIVE G(_, _)
                           G(y, evs) == IF evs = <<>> THEN y
                                        ELSE G(IF IsSgr(Head(evs)) THEN SgrStep(y, Head(evs).p) ELSE y, Tail(evs))
                       IN F(G([x EXCEPT !.ps = r[1]], r[2]), Tail(bs))
  IN F(XInit, bytes)

\* every visible character of `bytes` with the set of renditions allowed for it (enumeration oracle;
\* no narrowing: each character is judged on its own)
CharsAllowed(bytes) ==
  LET RECURSIVE F(_, _, _)
      F(x, bs, acc) ==
        IF bs = <<>> THEN acc
        ELSE LET r == VP!Step(x.ps, Head(bs))
                 RECURSIVE G(_, _, _)
                 G(y, evs, a) ==
                   IF evs = <<>> THEN <<y, a>>
                   ELSE LET e == Head(evs) IN
                        IF IsVisible(e) /\ CharOf(e) # 127 THEN G(y, Tail(evs), Append(a, [c |-> CharOf(e), S |-> y.S, wild |-> y.wild]))
                        ELSE IF IsSgr(e) THEN G(SgrStep(y, e.p), Tail(evs), a)
                        ELSE G(y, Tail(evs), a)
                 g == G([x EXCEPT !.ps = r[1]], r[2], acc)
             IN F(g[1], Tail(bs), g[2])
  IN F(XInit, bytes, <<>>)
=============================================================================
