---------------------------------- MODULE Svg ----------------------------------
(***************************************************************************)
(* SVG rendering of styled text (anstyle-svg, C14).                         *)
(* The document is observed through an independent XML parser (expat; it    *)
(* alone decides well-formedness) as                                        *)
(*   height, rows = per text line the foreground spans and, if present, the *)
(*   background blocks; every span with its text and what its classes MEAN  *)
(*   according to the document's own style sheet: fill colour, underline    *)
(*   colour, effect features, classes the sheet does not define.            *)
(* Expected, from the extractor specification (WinconExtract!CharsAllowed): *)
(*   - lines = visible text split at LF, a CR directly before LF dropped    *)
(*   - every character's span means a rendition allowed for that character, *)
(*     with invert swapping fg/bg against the configured defaults, colours  *)
(*     as the configured palette assigns them (Lossy), no undefined class   *)
(*   - a background block row exists exactly when the line has a background *)
(*     colour, and shows only (and all clearly visible) expected colours    *)
(*   - height = lines * 18 + 2 * padding                                    *)
(***************************************************************************)
EXTENDS WinconExtract, Lossy

ColorToRgb(col, pal) == CASE col[1] = "ansi" -> pal[col[2] + 1] [] col[1] = "idx" -> XtermToRgb(col[2], pal)
                          [] col[1] = "rgb" -> <<col[2], col[3], col[4]>>
Opt(col, pal) == IF col = None THEN <<>> ELSE ColorToRgb(col, pal)       \* <<>> = "not set" in the DOM dump

\* effective colours after the invert pre-processing
FgOf(g, cfg) == IF "INVERT" \in g.eff THEN (IF g.bg # None THEN g.bg ELSE cfg.bg) ELSE g.fg
BgOf(g, cfg) == IF "INVERT" \in g.eff THEN (IF g.fg # None THEN g.fg ELSE cfg.fg) ELSE g.bg

SpanMeans(g, cfg, m) ==
  /\ m.undefined = <<>>
  /\ m.fill = Opt(FgOf(g, cfg), cfg.pal)
  /\ m.ulcolor = Opt(g.ul, cfg.pal)
  /\ ToSet(m.eff) = g.eff \ {"BLINK", "INVERT"}

\* a character whose base rendition is unknown (after an "odd" list): what every candidate agrees on is still owed
SpanKnownOk(S, cfg, m) ==
  LET c == CHOOSE c \in S : TRUE IN
  /\ m.undefined = <<>>
  /\ ((\A a \in S : FgOf(a, cfg) = FgOf(c, cfg)) => m.fill = Opt(FgOf(c, cfg), cfg.pal))
  /\ ((\A a \in S : a.ul = c.ul) => m.ulcolor = Opt(c.ul, cfg.pal))
  /\ \A e \in Effects \ {"BLINK", "INVERT"} :
        ((\A a \in S : (e \in a.eff) = (e \in c.eff)) => ((e \in ToSet(m.eff)) = (e \in c.eff)))

\* expected lines: sequences of [c, S, wild]
RECURSIVE SplitAtLf(_, _, _)
SplitAtLf(cs, cur, acc) ==
  IF cs = <<>> THEN (IF cur = <<>> /\ acc = <<>> THEN <<>> ELSE Append(acc, cur))
  ELSE IF Head(cs).c = 10 THEN
       LET line == IF cur # <<>> /\ cur[Len(cur)].c = 13 THEN SubSeq(cur, 1, Len(cur) - 1) ELSE cur
       IN SplitAtLf(Tail(cs), <<>>, Append(acc, line))
  ELSE SplitAtLf(Tail(cs), Append(cur, Head(cs)), acc)
\* a text ending in LF has a last, empty line
ExpectedLines(bytes) == LET cs == CharsAllowed(bytes) IN SplitAtLf(cs, <<>>, <<>>)

\* flatten the spans of a row into <<code point, meaning>>
RECURSIVE FlatSpans(_)
\* DEL is dropped from both sides (as in WinconExtract: the parser prints it, the property does not count it as text)
FlatSpans(spans) == IF spans = <<>> THEN <<>>
                    ELSE LET s == Head(spans)
                             t == SelectSeq(s.text, LAMBDA c : c # 127)
                         IN [i \in 1..Len(t) |-> <<t[i], s>>] \o FlatSpans(Tail(spans))

FgRowOk(line, spans, cfg) ==
  LET flat == FlatSpans(spans) IN
  /\ Len(flat) = Len(line)
  /\ \A k \in 1..Len(line) :
        /\ flat[k][1] = line[k].c
        /\ (IF line[k].wild THEN SpanKnownOk(line[k].S, cfg, flat[k][2]) ELSE \E g \in line[k].S : SpanMeans(g, cfg, flat[k][2]))

BgRowOk(line, bg, cfg) ==
  LET may  == UNION {{Opt(BgOf(g, cfg), cfg.pal) : g \in line[k].S} : k \in 1..Len(line)}
      must == {Opt(BgOf(CHOOSE g \in line[k].S : TRUE, cfg), cfg.pal) :
                 k \in {j \in 1..Len(line) : line[j].c > 32 /\ line[j].c < 127 /\ ~line[j].wild
                                              /\ \A g1 \in line[j].S, g2 \in line[j].S : BgOf(g1, cfg) = BgOf(g2, cfg)}}
      anyWild == \E k \in 1..Len(line) : line[k].wild
      seen == {bg.spans[k].fill : k \in {j \in 1..Len(bg.spans) : bg.spans[j].text # <<>>}}
  IN IF anyWild THEN TRUE
     ELSE IF ~bg.present THEN must \subseteq {<<>>}
     ELSE /\ seen \subseteq (may \cup {<<>>}) /\ (must \ {<<>>}) \subseteq seen
          /\ \A k \in 1..Len(bg.spans) : bg.spans[k].undefined = <<>>

DocOk(e) ==
  LET lines == ExpectedLines(e.in)
      d == e.dom
      cfg == e.cfg
  IN /\ d.wellformed
     /\ Len(d.rows) = Len(lines)
     /\ d.height = Len(lines) * 18 + 2 * cfg.padding
     /\ d.default_fill = ColorToRgb(cfg.fg, cfg.pal) /\ d.default_bg = ColorToRgb(cfg.bg, cfg.pal)
     /\ d.has_rect = cfg.background
     /\ \A i \in 1..Len(lines) : FgRowOk(lines[i], d.rows[i].fg, cfg) /\ BgRowOk(lines[i], d.rows[i].bg, cfg) /\ d.rows[i].stray = <<>>
=============================================================================
