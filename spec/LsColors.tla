------------------------------- MODULE LsColors -------------------------------
(***************************************************************************)
(* The style part of an LS_COLORS entry as parsed by anstyle-ls (C12): a    *)
(* ';'-separated list of decimal SGR codes applied left to right to the     *)
(* default style.  Input is a sequence of code points.                      *)
(*   ""  "0"  "00"            -> "none" (no style)                           *)
(*   any field that is not one or more ASCII digits with value <= 255,      *)
(*   including an empty field -> "reject"                                   *)
(*   otherwise                -> <<"ok", style>>                             *)
(* Codes: effects 1-9 (6 = blink), resets 22-29, 30-37/90-97, 40-47/100-107,*)
(* 38/48/58 in the ;5;n and ;2;r;g;b forms, 39/49/59, 0 = full reset,       *)
(* anything else ignored.  A truncated or malformed extended colour is      *)
(* outside the statement: the remaining codes may be ignored or the form     *)
(* skipped ("odd": any result accepted).                                    *)
(***************************************************************************)
EXTENDS Naturals, Sequences, FiniteSets

None == <<"none">>
Default == [fg |-> None, bg |-> None, ul |-> None, eff |-> {}]
IsDigit(c) == c >= 48 /\ c <= 57

\* split at ';' (59)
RECURSIVE Fields(_, _, _)
Fields(s, cur, acc) ==
  IF s = <<>> THEN Append(acc, cur)
  ELSE IF Head(s) = 59 THEN Fields(Tail(s), <<>>, Append(acc, cur))
  ELSE Fields(Tail(s), Append(cur, Head(s)), acc)

RECURSIVE NumVal(_, _)
NumVal(w, acc) == IF w = <<>> THEN acc ELSE IF acc > 255 THEN 256 ELSE NumVal(Tail(w), acc * 10 + (Head(w) - 48))
FieldOk(f) == f # <<>> /\ (\A i \in 1..Len(f) : IsDigit(f[i])) /\ NumVal(f, 0) <= 255

On(st, e) == [st EXCEPT !.eff = @ \cup {e}]
Off(st, s) == [st EXCEPT !.eff = @ \ s]
SetCol(st, v, c) == IF v = 38 THEN [st EXCEPT !.fg = c] ELSE IF v = 48 THEN [st EXCEPT !.bg = c] ELSE [st EXCEPT !.ul = c]

\* apply codes left to right: <<style, odd>>
RECURSIVE ApplyCodes(_, _)
ApplyCodes(st, cs) ==
  IF cs = <<>> THEN <<st, FALSE>>
  ELSE LET v == Head(cs) rest == Tail(cs) IN
    IF v \in {38, 48, 58} THEN
       IF Len(rest) >= 2 /\ rest[1] = 5 THEN ApplyCodes(SetCol(st, v, <<"idx", rest[2]>>), SubSeq(rest, 3, Len(rest)))
       ELSE IF Len(rest) >= 4 /\ rest[1] = 2 THEN ApplyCodes(SetCol(st, v, <<"rgb", rest[2], rest[3], rest[4]>>), SubSeq(rest, 5, Len(rest)))
       ELSE <<st, TRUE>>
    ELSE ApplyCodes(
      CASE v = 0 -> Default
        [] v = 1 -> On(st, "BOLD") [] v = 2 -> On(st, "DIMMED") [] v = 3 -> On(st, "ITALIC") [] v = 4 -> On(st, "UNDERLINE")
        [] v = 5 -> On(st, "BLINK") [] v = 6 -> On(st, "BLINK") [] v = 7 -> On(st, "INVERT") [] v = 8 -> On(st, "HIDDEN")
        [] v = 9 -> On(st, "STRIKETHROUGH")
        [] v = 22 -> Off(st, {"BOLD", "DIMMED"}) [] v = 23 -> Off(st, {"ITALIC"}) [] v = 24 -> Off(st, {"UNDERLINE"})
        [] v = 25 -> Off(st, {"BLINK"}) [] v = 27 -> Off(st, {"INVERT"}) [] v = 28 -> Off(st, {"HIDDEN"}) [] v = 29 -> Off(st, {"STRIKETHROUGH"})
        [] v >= 30 /\ v <= 37 -> [st EXCEPT !.fg = <<"ansi", v - 30>>]
        [] v = 39 -> [st EXCEPT !.fg = None]
        [] v >= 40 /\ v <= 47 -> [st EXCEPT !.bg = <<"ansi", v - 40>>]
        [] v = 49 -> [st EXCEPT !.bg = None]
        [] v = 59 -> [st EXCEPT !.ul = None]
        [] v >= 90 /\ v <= 97 -> [st EXCEPT !.fg = <<"ansi", v - 90 + 8>>]
        [] v >= 100 /\ v <= 107 -> [st EXCEPT !.bg = <<"ansi", v - 100 + 8>>]
        [] OTHER -> st, rest)

\* result: <<"none">> | <<"reject">> | <<"ok", style>> | <<"odd">>
Parse(s) ==
  IF s = <<>> \/ s = <<48>> \/ s = <<48, 48>> THEN <<"none">>
  ELSE LET fs == Fields(s, <<>>, <<>>) IN
       IF \E k \in 1..Len(fs) : ~FieldOk(fs[k]) THEN <<"reject">>
       ELSE LET r == ApplyCodes(Default, [k \in 1..Len(fs) |-> NumVal(fs[k], 0)]) IN
            IF r[2] THEN <<"odd">> ELSE <<"ok", r[1]>>
=============================================================================
