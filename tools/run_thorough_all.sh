#!/bin/sh
# runs every thorough check once (used with `vp run` to try the thorough tier away from the editing tree)
cd "$(dirname "$0")/.."
python3 tools/verif.py setup || exit 2
for id in ${1:-C09 C10 C11 C12 C16 C17 C14 C15 C18 C19 C20 C04 C05 C13 C07 C08 C06 C03 C01 C02}; do
  s=$(date +%s)
  python3 tools/verif.py check $id --tier thorough > out_$id.txt 2> err_$id.txt
  rc=$?
  e=$(date +%s)
  echo "$id rc=$rc $((e-s))s viol=$(grep -c '^VIOLATION' out_$id.txt) known=$(grep -c '^KNOWN-FINDING' out_$id.txt) $(grep -m1 TOOL-ERROR out_$id.txt | cut -c1-300)"
  tail -1 err_$id.txt | cut -c1-300
done
