"""Common machinery for the anstyle verification checks.

  build_harness()  - cargo build of /verif/harness against /repo's working tree
  tlc_mc()         - run TLC on a model-checking configuration, collect statistics and REPLAY lines
  tlc_trace()      - validate an NDJSON trace recorded from the implementation against a trace spec
  Evidence         - accumulates what a run covered and writes /verif/evidence/<id>.json
  Findings         - committed list of known findings (never written at run time)

Exit codes of a check: 0 property held on everything explored; 1 + `VIOLATION property=.. replay=..`;
2 tool error / timeout (`TOOL-ERROR ...`), never a VIOLATION.
"""
import json, os, re, shutil, subprocess, sys, time, hashlib, random
from concurrent.futures import ThreadPoolExecutor

VERIF = os.path.dirname(os.path.dirname(os.path.abspath(__file__)))
SPEC = os.path.join(VERIF, "spec")
HARNESS = os.path.join(VERIF, "harness")
EVID = os.path.join(VERIF, "evidence")
WORK_ROOT = os.path.join(EVID, "work")
# every process works in its own scratch area (several checks may run at the same time; one must not clean up under another)
WORK = os.path.join(WORK_ROOT, "p%d" % os.getpid())
REPLAYS = os.path.join(EVID, "replays")
FINDINGS = os.path.join(VERIF, "findings", "known-findings.jsonl")
TLA_CP = "/opt/veriftools/tla/tla2tools.jar:/opt/veriftools/tla/CommunityModules-deps.jar"
LIBPATH = os.pathsep.join([SPEC, os.path.join(SPEC, "mc"), os.path.join(SPEC, "trace")])


class ToolError(Exception):
    pass


def log(*a):
    print(*a, file=sys.stderr, flush=True)


def workdir(name):
    d = os.path.join(WORK, name)
    shutil.rmtree(d, ignore_errors=True)
    os.makedirs(d, exist_ok=True)
    return d


def cleanup_work(name):
    shutil.rmtree(os.path.join(WORK, name) if name else WORK, ignore_errors=True)
    # scratch areas of processes that no longer exist
    if not name and os.path.isdir(WORK_ROOT):
        for d in os.listdir(WORK_ROOT):
            pid = d[1:] if d.startswith("p") and d[1:].isdigit() else None
            if pid is None or not os.path.exists("/proc/%s" % pid):
                shutil.rmtree(os.path.join(WORK_ROOT, d), ignore_errors=True)


# --------------------------------------------------------------------------------------------
# harness
# --------------------------------------------------------------------------------------------
_built = set()


def build_harness(pkg="vh", features=None, target_dir=None, bin_name=None, no_default=False):
    """Build a harness package (release profile with debug assertions and overflow checks on)
    against /repo's current working tree. Returns the path of the binary."""
    key = (pkg, tuple(features or ()), target_dir, no_default)
    td = target_dir or os.path.join(HARNESS, "target")
    binp = os.path.join(td, "release", bin_name or pkg)
    if key in _built:
        return binp
    env = dict(os.environ)
    env["CARGO_NET_OFFLINE"] = "true"
    cmd = ["cargo", "build", "--release", "--offline", "-q", "-p", pkg]
    if target_dir:
        cmd += ["--target-dir", target_dir]
    if no_default:
        cmd += ["--no-default-features"]
    if features:
        cmd += ["--features", ",".join(features)]
    t0 = time.time()
    r = subprocess.run(cmd, cwd=HARNESS, env=env, stdout=subprocess.PIPE, stderr=subprocess.STDOUT, text=True)
    if r.returncode != 0:
        raise ToolError("cargo build failed for %s:\n%s" % (pkg, r.stdout[-4000:]))
    log("[build] %s %s in %.1fs" % (pkg, features or "", time.time() - t0))
    _built.add(key)
    return binp


def build_harness_asan(pkg="vh", bin_name=None):
    """The same harness under AddressSanitizer (nightly toolchain; crate code - with its unsafe blocks - is instrumented).
    Returns the binary path, or None when no nightly toolchain with the sanitizer runtime is usable."""
    td = os.path.join(HARNESS, "target-asan")
    binp = os.path.join(td, "x86_64-unknown-linux-gnu", "release", bin_name or pkg)
    key = ("asan", pkg)
    if key in _built:
        return binp
    env = dict(os.environ)
    env["CARGO_NET_OFFLINE"] = "true"
    env["RUSTFLAGS"] = "-Zsanitizer=address --cfg anstyle_verif --check-cfg cfg(anstyle_verif)"
    cmd = ["cargo", "+nightly", "build", "--release", "--offline", "-q", "-p", pkg, "--target", "x86_64-unknown-linux-gnu", "--target-dir", td]
    t0 = time.time()
    try:
        r = subprocess.run(cmd, cwd=HARNESS, env=env, stdout=subprocess.PIPE, stderr=subprocess.STDOUT, text=True, timeout=1800)
    except (OSError, subprocess.TimeoutExpired):
        return None
    if r.returncode != 0:
        log("[build] no AddressSanitizer build of %s: %s" % (pkg, r.stdout[-300:].replace("\n", " ")))
        return None
    log("[build] %s under AddressSanitizer in %.1fs" % (pkg, time.time() - t0))
    _built.add(key)
    return binp


def run_harness(binp, args, stdin=None, timeout=3600, env=None, check=True, raise_timeout=False):
    e = dict(os.environ)
    if env:
        e.update(env)
    try:
        r = subprocess.run([binp] + [str(a) for a in args], input=stdin, stdout=subprocess.PIPE,
                           stderr=subprocess.PIPE, text=True, timeout=timeout, env=e)
    except subprocess.TimeoutExpired:
        if raise_timeout:
            raise
        raise ToolError("harness timeout: %s %s" % (binp, args))
    if check and r.returncode != 0:
        raise ToolError("harness failed (%d): %s %s\n%s" % (r.returncode, binp, args, r.stderr[-4000:]))
    return r


# --------------------------------------------------------------------------------------------
# TLC
# --------------------------------------------------------------------------------------------
STATS_RE = re.compile(r"(\d+) states generated, (\d+) distinct states found, (\d+) states left on queue")


class TlcResult:
    def __init__(self):
        self.ok = False          # finished without error
        self.violated = None     # name of violated invariant/property if any
        self.generated = 0
        self.distinct = 0
        self.lines = []          # decoded JSON payloads printed by the spec
        self.raw_tail = ""
        self.coverage = {}
        self.wall = 0.0
        self.out_path = None


def java_tmp():
    """TLC unpacks its standard modules into a fresh directory under java.io.tmpdir on every start and leaves it there; keep those
    inside this process's scratch area (removed with it) instead of /tmp."""
    d = os.path.join(WORK, "jtmp")
    os.makedirs(d, exist_ok=True)
    return d


def _java_cmd(xmx, xss, dfs, extra_props=()):
    cmd = ["java", "-XX:+UseParallelGC", "-XX:ParallelGCThreads=2", "-Xmx" + xmx, "-Xss" + xss, "-DTLA-Library=" + LIBPATH,
           "-Djava.io.tmpdir=" + java_tmp()]
    if dfs:
        cmd.append("-Dtlc2.tool.queue.IStateQueue=StateDeque")
    cmd += list(extra_props)
    cmd += ["-cp", TLA_CP, "tlc2.TLC"]
    return cmd


def tlc_run(module_path, cfg_path, name, workers=4, timeout=1800, xmx="6g", xss="512m", dfs=False,
            env=None, simulate=None, depth=None, coverage=False, keep_output=False, seed=None,
            collect=True, payload_sink=None):
    """Run TLC; returns TlcResult. Payload lines are lines that are JSON string literals
    (what PrintT(ToJson(..)) prints); they are decoded and either collected in result.lines
    or handed to payload_sink(obj)."""
    wd = workdir("tlc-" + name)
    module_path = os.path.join(VERIF, module_path)
    cfg_path = os.path.join(VERIF, cfg_path)
    cmd = _java_cmd(xmx, xss, dfs)
    cmd += ["-workers", str(workers), "-metadir", os.path.join(wd, "meta"), "-cleanup", "-noGenerateSpecTE",
            "-config", cfg_path]
    if coverage:
        cmd += ["-coverage", "1"]
    if simulate:
        cmd += ["-simulate", "num=%d" % simulate]
        if depth:
            cmd += ["-depth", str(depth)]
        if seed is not None:
            cmd += ["-seed", str(seed)]
    cmd.append(module_path)
    e = dict(os.environ)
    e.pop("JAVA_TOOL_OPTIONS", None)
    if env:
        e.update({k: str(v) for k, v in env.items()})
    res = TlcResult()
    out_path = os.path.join(wd, "tlc.out")
    res.out_path = out_path
    t0 = time.time()
    tail = []
    errors = []
    try:
        with open(out_path, "w") as outf:
            p = subprocess.Popen(cmd, cwd=wd, env=e, stdout=subprocess.PIPE, stderr=subprocess.STDOUT, text=True,
                                 bufsize=1 << 20)
            try:
                for line in p.stdout:
                    if line.startswith('"{') or line.startswith('"['):
                        try:
                            obj = json.loads(json.loads(line))
                        except Exception:
                            raise ToolError("unparsable payload line from TLC: %r" % line[:200])
                        if payload_sink:
                            payload_sink(obj)
                        elif collect:
                            res.lines.append(obj)
                        continue
                    outf.write(line)
                    if line.startswith("Error:") and len(errors) < 10:
                        errors.append(line)
                    tail.append(line)
                    if len(tail) > 400:
                        del tail[:200]
                    if time.time() - t0 > timeout:
                        p.kill()
                        raise ToolError("TLC timeout (%ds) on %s" % (timeout, name))
                p.wait(timeout=max(1, timeout - (time.time() - t0)))
            except subprocess.TimeoutExpired:
                p.kill()
                raise ToolError("TLC timeout (%ds) on %s" % (timeout, name))
            finally:
                if p.poll() is None:
                    p.kill()
    finally:
        res.wall = time.time() - t0
    text = "".join(errors) + "".join(tail)
    res.raw_tail = text
    m = None
    for m in STATS_RE.finditer(text):
        pass
    if m:
        res.generated, res.distinct = int(m.group(1)), int(m.group(2))
    if simulate:
        mm = re.search(r"states generated: (\d+)|The number of states generated: (\d+)", text)
        if mm:
            res.generated = int(mm.group(1) or mm.group(2))
            res.distinct = res.distinct or res.generated
    vi = re.search(r"Error: Invariant (\S+) is violated", text)
    vp = re.search(r"Error: Action property (\S+) is violated|Error: Temporal properties were violated", text)
    if vi:
        res.violated = vi.group(1)
    elif vp:
        res.violated = vp.group(1) or "temporal"
    elif "is violated" in text and "Error:" in text:
        res.violated = "unknown"
    res.ok = (p.returncode == 0) and res.violated is None and "Error:" not in text
    res.returncode = p.returncode
    if coverage:
        res.coverage = parse_coverage(text)
    if not keep_output and res.ok:
        shutil.rmtree(wd, ignore_errors=True)
    return res


def parse_coverage(text):
    """action name -> (distinct, total) from '-coverage 1' output:  <Name line .. of module M>: d:t"""
    cov = {}
    for m in re.finditer(r"^<(\w+) line \d+, col \d+ to line \d+, col \d+ of module (\w+)>: (\d+):(\d+)", text, re.M):
        cov[m.group(1)] = (int(m.group(3)), int(m.group(4)))
    return cov


def tlc_counterexample(res):
    """Extract the printed error trace (states) from a failed TLC run as text."""
    t = res.raw_tail
    i = t.find("Error:")
    return t[i:i + 6000] if i >= 0 else t[-3000:]


def tlc_trace(trace_path, spec_name, name, consts=None, timeout=900, xmx="3g"):
    """Validate one NDJSON trace file with the trace spec spec/trace/<spec_name>.tla/.cfg.
    The trace spec reads IOEnv.TRACE and decides acceptance by POSTCONDITION; on rejection it prints
    a payload {"reject_at": n, ...}.  consts: dict written into a generated cfg (CONSTANTS section)
    so that deviation flags can be switched per run.  Returns (accepted, reject_info, TlcResult)."""
    mod = os.path.join(SPEC, "trace", spec_name + ".tla")
    base_cfg = os.path.join(SPEC, "trace", spec_name + ".cfg")
    cfg = base_cfg
    if consts:
        wd0 = os.path.join(WORK, "cfg-" + name)
        os.makedirs(wd0, exist_ok=True)
        cfg = os.path.join(wd0, spec_name + ".cfg")
        txt = open(base_cfg).read()
        for k, v in consts.items():
            val = "TRUE" if v is True else "FALSE" if v is False else str(v)
            txt, n = re.subn(r"(^\s*%s\s*=\s*)\S+" % re.escape(k), lambda m: m.group(1) + val, txt, flags=re.M)
            if n == 0:
                raise ToolError("constant %s not in %s" % (k, base_cfg))
        open(cfg, "w").write(txt)
    res = tlc_run(mod, cfg, name, workers=1, timeout=timeout, xmx=xmx, xss="1g", dfs=True,
                  env={"TRACE": trace_path})
    if consts:
        shutil.rmtree(os.path.join(WORK, "cfg-" + name), ignore_errors=True)
    rej = None
    for o in res.lines:
        if isinstance(o, dict) and "reject_at" in o:
            rej = o
    if res.ok and rej is None:
        return True, None, res
    if rej is not None:
        return False, rej, res
    raise ToolError("trace validation of %s by %s ended abnormally:\n%s" % (trace_path, spec_name, res.raw_tail[-3000:]))


def parallel(fn, items, jobs=8):
    with ThreadPoolExecutor(max_workers=jobs) as ex:
        return list(ex.map(fn, items))


# --------------------------------------------------------------------------------------------
# findings
# --------------------------------------------------------------------------------------------
class Findings:
    def __init__(self):
        self.entries = []
        if os.path.exists(FINDINGS):
            for l in open(FINDINGS):
                l = l.strip()
                if l and not l.startswith("#"):
                    self.entries.append(json.loads(l))

    def open_for(self, prop):
        return [e for e in self.entries if e.get("status") == "open" and (e.get("property") == prop or prop in e.get("also", []))]

    def open_flags(self, prop, module=None):
        """deviation flags that the lenient validator may switch on for this property"""
        return {e["deviation"]: e for e in self.open_for(prop) if "deviation" in e and (module is None or e.get("module") == module)}


# --------------------------------------------------------------------------------------------
# evidence + verdict
# --------------------------------------------------------------------------------------------
class Check:
    def __init__(self, prop, tier, seed, level="model_checking"):
        self.prop, self.tier, self.seed, self.level = prop, tier, seed, level
        self.t0 = time.time()
        self.states = 0
        self.transitions = 0
        self.traces = 0
        self.evaluations = 0
        self.nontrivial = set()
        self.nontrivial_count = 0
        self.samples = []
        self.violations = []
        self.known = {}
        self.notes = []
        self.parts = {}
        self.exhaustive = None
        self.assumptions = []
        self.rule = ""
        self.findings = Findings()
        os.makedirs(REPLAYS, exist_ok=True)

    def add_tlc(self, res, part=None):
        self.states += res.distinct
        self.transitions += res.generated
        if part:
            self.parts[part] = {"states": res.distinct, "transitions": res.generated, "wall_s": round(res.wall, 1)}

    def part(self, name, **kw):
        self.parts.setdefault(name, {}).update(kw)

    def sample(self, s, limit=6):
        if len(self.samples) < limit:
            self.samples.append(s)

    def count_nontrivial(self, key):
        """key: hashable description of a distinct non-trivial case"""
        h = hashlib.blake2b(repr(key).encode(), digest_size=8).digest()
        if h not in self.nontrivial:
            self.nontrivial.add(h)

    def violation(self, what, replay_obj):
        n = len(self.violations)
        path = os.path.join(REPLAYS, "%s-%d-%d.json" % (self.prop, self.seed, n))
        replay_obj = dict(replay_obj)
        replay_obj.setdefault("property", self.prop)
        replay_obj.setdefault("what", what)
        with open(path, "w") as f:
            json.dump(replay_obj, f, indent=1)
        self.violations.append({"what": what, "replay": path})
        if n < 20:
            print("VIOLATION property=%s replay=%s" % (self.prop, path), flush=True)
            log("  -> " + what)

    def known_finding(self, fid, what, witness=None):
        if fid not in self.known:
            self.known[fid] = {"what": what, "witness": witness, "count": 0}
            print("KNOWN-FINDING: property=%s %s: %s%s" % (self.prop, fid, what,
                  (" input=" + json.dumps(witness)) if witness is not None else ""), flush=True)
        self.known[fid]["count"] += 1

    def finish(self):
        cov = {
            "states": self.states, "transitions": self.transitions,
            "traces_validated_against_impl": self.traces,
            "evaluations": self.evaluations,
            "distinct_nontrivial": len(self.nontrivial) + self.nontrivial_count,
            "rule": self.rule,
            "samples": self.samples if self.samples else ["(no sample recorded)"],
            "parts": self.parts,
            "known_findings_seen": {k: {"count": v["count"], "what": v["what"]} for k, v in self.known.items()},
            "notes": self.notes,
        }
        if self.exhaustive is not None:
            cov["exhaustive"] = bool(self.exhaustive)
        ev = {
            "property_id": self.prop, "tier": self.tier, "seed": self.seed, "level": self.level,
            "coverage": cov, "assumptions": self.assumptions,
            "wall_s": round(time.time() - self.t0, 2), "violations": len(self.violations),
        }
        os.makedirs(EVID, exist_ok=True)
        with open(os.path.join(EVID, self.prop + ".json"), "w") as f:
            json.dump(ev, f, indent=1)
        log("[%s] %s tier, %.1fs, states=%d transitions=%d traces=%d evaluations=%d nontrivial=%d violations=%d known=%s"
            % (self.prop, self.tier, ev["wall_s"], self.states, self.transitions, self.traces, self.evaluations,
               cov["distinct_nontrivial"], len(self.violations), list(self.known)))
        return 1 if self.violations else 0


def apalache_check(module_path, name, init=None, inv=None, length=1, timeout=3000, extra=()):
    """apalache-mc check on a module under spec/apalache.  Returns ("ok" | "error" | "timeout" | "tool", seconds, tail)."""
    wd = workdir("apalache-" + name)
    cmd = ["timeout", str(timeout), "apalache-mc", "check", "--out-dir=" + wd, "--length=%d" % length]
    if init:
        cmd.append("--init=" + init)
    if inv:
        cmd.append("--inv=" + inv)
    cmd += list(extra) + [os.path.join(VERIF, module_path)]
    t0 = time.time()
    r = subprocess.run(cmd, cwd=wd, stdout=subprocess.PIPE, stderr=subprocess.STDOUT, text=True)
    dt = time.time() - t0
    tail = r.stdout[-1500:]
    if r.returncode == 124:
        return "timeout", dt, tail
    if "EXITCODE: OK" in r.stdout:
        return "ok", dt, tail
    if "EXITCODE: ERROR (12)" in r.stdout or "violated" in r.stdout.lower():
        return "error", dt, tail
    return "tool", dt, tail


def tlapm_check(module_path, name, timeout=1200):
    """tlapm on a proof module under spec/proofs (fingerprints ignored: every obligation is re-proved).
    Returns ("ok" | "failed" | "timeout" | "tool", obligations, seconds, tail)."""
    wd = workdir("tlapm-" + name)
    mod = os.path.join(VERIF, module_path)
    cmd = ["timeout", str(timeout), "tlapm", "--cleanfp", "--threads", "6", "-I", SPEC, "--cache-dir", wd, mod]
    t0 = time.time()
    r = subprocess.run(cmd, cwd=os.path.dirname(mod), stdout=subprocess.PIPE, stderr=subprocess.STDOUT, text=True)
    dt = time.time() - t0
    m = re.search(r"All (\d+) obligations? proved", r.stdout)
    if r.returncode == 124:
        return "timeout", 0, dt, r.stdout[-1500:]
    if m and r.returncode == 0:
        return "ok", int(m.group(1)), dt, r.stdout[-500:]
    m = re.search(r"(\d+)/(\d+) obligations failed", r.stdout)
    if m:
        return "failed", int(m.group(2)), dt, r.stdout[-3000:]
    return "tool", 0, dt, r.stdout[-3000:]


def ddmin(seq, failing_batch, max_rounds=40):
    """Delta debugging over a list: failing_batch(list of candidate lists) -> list of bools (candidate still fails).
    Candidates of one round are judged in ONE batch (one TLC + one harness run).  Returns a 1-minimal-ish failing list."""
    seq = list(seq)
    n = 2
    rounds = 0
    while len(seq) >= 2 and rounds < max_rounds:
        rounds += 1
        size = max(1, len(seq) // n)
        chunks = [seq[i:i + size] for i in range(0, len(seq), size)]
        cands = []
        for i in range(len(chunks)):
            comp = [x for j, c in enumerate(chunks) if j != i for x in c]
            if comp:
                cands.append(comp)
        cands += [c for c in chunks if len(c) < len(seq)]
        if not cands:
            break
        res = failing_batch(cands)
        hit = next((c for c, bad in zip(cands, res) if bad), None)
        if hit is not None:
            seq = hit
            n = max(2, n - 1)
        elif n >= len(seq):
            break
        else:
            n = min(len(seq), n * 2)
    return seq


def shard_lines(lines, n):
    """split a list of lines into n nearly equal shards"""
    k = max(1, (len(lines) + n - 1) // n)
    return [lines[i:i + k] for i in range(0, len(lines), k)]


def write_lines(path, objs):
    with open(path, "w") as f:
        for o in objs:
            f.write(json.dumps(o, separators=(",", ":")) + "\n")
