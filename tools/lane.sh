#!/bin/sh
# lane.sh <n> : (re)create an isolated copy for trying seeded changes in parallel:
#   /tmp/lanes/<n>/repo   a detached worktree of /repo HEAD
#   /tmp/lanes/<n>/verif  a copy of /verif (no build output, no evidence) whose harness points at that worktree
# The checks themselves are unchanged; only the path of the tree under test differs.  Remove with: lane.sh <n> rm
n=$1
L=/tmp/lanes/$n
if [ "$2" = rm ]; then
  git -C /repo worktree remove --force $L/repo 2>/dev/null
  rm -rf $L
  exit 0
fi
mkdir -p $L
if [ ! -d $L/repo ]; then git -C /repo worktree add --detach $L/repo HEAD >/dev/null 2>&1 || exit 3; fi
git -C $L/repo checkout -q --detach "$(git -C /repo rev-parse HEAD)" && git -C $L/repo checkout -q -- . 
mkdir -p $L/verif
rsync -a --delete --exclude 'harness/target*' --exclude 'evidence' --exclude '.git' --exclude '__pycache__' /verif/ $L/verif/
mkdir -p $L/verif/evidence
grep -rl '/repo' $L/verif/harness --include=Cargo.toml --include=*.rs | xargs sed -i "s#/repo/#$L/repo/#g"
echo $L
