#!/bin/sh
# false-alarm sweep: every quick check under several seeds on the unchanged tree; prints one line per non-zero exit
cd "$(dirname "$0")/.."
for seed in ${SEEDS:-11 23 37 41 59 67 73 89 97 101}; do
  for id in ${IDS:-C01 C02 C03 C04 C05 C06 C07 C08 C09 C10 C11 C12 C13 C14 C15 C16 C17 C18 C19 C20}; do
    VERIF_SEED=$seed python3 tools/verif.py check $id --tier ${TIER:-quick} > /tmp/sweep_$id.out 2> /tmp/sweep_$id.err
    rc=$?
    if [ $rc != 0 ]; then echo "seed=$seed $id rc=$rc $(grep -m2 'VIOLATION\|TOOL-ERROR' /tmp/sweep_$id.out | cut -c1-200)"; cp /tmp/sweep_$id.err /tmp/sweep_fail_${id}_$seed.err; fi
  done
  echo "seed=$seed done"
done
