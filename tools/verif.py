#!/usr/bin/env python3
"""Driver of the anstyle verification checks.

  verif.py check <ID> [--tier quick|thorough]   run the check of one property (honours VERIF_SEED, VERIF_TIER)
  verif.py replay <path>                        re-run one recorded violation against the working tree
  verif.py setup                                build the harness, parse every module, run the binding self-tests
  verif.py selftest [ID]                        binding self-tests (corrupted traces / flipped expectations must be rejected)
"""
import argparse, importlib, json, os, sys, time, traceback
sys.path.insert(0, os.path.dirname(os.path.abspath(__file__)))
import vlib

LEVELS = {"C04": "exploration"}


def load(prop):
    return importlib.import_module("props." + prop.lower())


def cmd_check(a):
    tier = a.tier or os.environ.get("VERIF_TIER") or "quick"
    if tier not in ("quick", "thorough"):
        tier = "quick"
    seed = int(os.environ.get("VERIF_SEED", "1") or "1")
    chk = vlib.Check(a.prop, tier, seed, LEVELS.get(a.prop, "model_checking"))
    try:
        mod = load(a.prop)
        mod.run(chk)
        if tier == "thorough" and hasattr(mod, "selftest"):
            # the binding self-test: a corrupted trace / flipped expectation must be rejected where it was corrupted
            if not mod.selftest():
                raise vlib.ToolError("binding self-test of %s failed: the validator no longer rejects a corrupted observation" % a.prop)
            chk.part("binding_selftest", corrupted_observation_rejected=True)
        rc = chk.finish()
    except vlib.ToolError as e:
        print("TOOL-ERROR property=%s %s" % (a.prop, str(e)[:3000]), flush=True)
        return 2
    except Exception:
        print("TOOL-ERROR property=%s internal error\n%s" % (a.prop, traceback.format_exc()), flush=True)
        return 2
    finally:
        vlib.cleanup_work("")
    return rc


def cmd_replay(a):
    obj = json.load(open(a.path))
    mod = load(obj["property"])
    try:
        return mod.replay(obj)
    except vlib.ToolError as e:
        print("TOOL-ERROR %s" % e)
        return 2


def cmd_setup(a):
    import subprocess, glob
    try:
        vlib.build_harness("vh")
        for extra in ("setup_extra",):
            pass
        bad = 0
        mods = sorted(glob.glob(os.path.join(vlib.SPEC, "*.tla")) + glob.glob(os.path.join(vlib.SPEC, "mc", "*.tla")) +
                      glob.glob(os.path.join(vlib.SPEC, "trace", "*.tla")))
        def sany(m):
            r = subprocess.run(["java", "-DTLA-Library=" + vlib.LIBPATH, "-Djava.io.tmpdir=" + vlib.java_tmp(), "-cp", vlib.TLA_CP, "tla2sany.SANY", m],
                               stdout=subprocess.PIPE, stderr=subprocess.STDOUT, text=True, cwd=os.path.dirname(m))
            ok = r.returncode == 0 and "rror" not in r.stdout.replace("errors", "")
            return m, ok, r.stdout[-800:]
        for m, ok, out in vlib.parallel(sany, mods, jobs=8):
            if not ok:
                bad += 1
                print("SANY failed: %s\n%s" % (m, out))
        print("setup: %d modules parsed, %d failed" % (len(mods), bad))
        if bad:
            return 2
        from props import ALL
        for p in ALL:
            mod = load(p)
            if hasattr(mod, "setup"):
                mod.setup()
        return 0
    except vlib.ToolError as e:
        print("TOOL-ERROR setup: %s" % e)
        return 2


def cmd_selftest(a):
    from props import ALL
    rc = 0
    for p in ([a.prop] if a.prop else ALL):
        mod = load(p)
        if hasattr(mod, "selftest"):
            try:
                ok = mod.selftest()
            except vlib.ToolError as e:
                print("TOOL-ERROR selftest %s: %s" % (p, e))
                ok = False
            print("selftest %s: %s" % (p, "ok" if ok else "FAILED"))
            if not ok:
                rc = 2
    return rc


def main():
    ap = argparse.ArgumentParser()
    sub = ap.add_subparsers(dest="cmd", required=True)
    c = sub.add_parser("check"); c.add_argument("prop"); c.add_argument("--tier")
    r = sub.add_parser("replay"); r.add_argument("path")
    sub.add_parser("setup")
    s = sub.add_parser("selftest"); s.add_argument("prop", nargs="?")
    a = ap.parse_args()
    rc = {"check": cmd_check, "replay": cmd_replay, "setup": cmd_setup, "selftest": cmd_selftest}[a.cmd](a)
    sys.exit(rc)


if __name__ == "__main__":
    main()
