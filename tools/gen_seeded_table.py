#!/usr/bin/env python3
"""Print the markdown table of DESIGN.md section 13 from seeded/*/meta.json (and notes.md for the one-line description)."""
import json, os, re, sys
root = os.path.join(os.path.dirname(os.path.abspath(__file__)), "..", "seeded")
rows = []
def order(x):
    m = re.match(r"(C\d\d)-(?:r(\d+))?m(\d)", x)
    return (m.group(1), int(m.group(2) or 1), int(m.group(3))) if m else (x, 0, 0)


for d in sorted(os.listdir(root), key=order):
    mp = os.path.join(root, d, "meta.json")
    if not os.path.exists(mp):
        continue
    m = json.load(open(mp))
    notes = ""
    np_ = os.path.join(root, d, "notes.md")
    if os.path.exists(np_):
        txt = open(np_).read()
        # first heading or bold title
        mm = re.search(r"^(?:#+\s*|\*\*)(.+?)(?:\*\*|$)", txt.strip(), re.M)
        notes = (mm.group(1) if mm else txt.strip().split("\n")[0])
        notes = re.sub(r"^[mM]\d\s*[-—–:.]+\s*", "", re.sub(r"^C\d\d\s*/\s*", "", notes)).strip(" #*")
    det = m.get("detected_by", [])
    first = ""
    for c in det:
        first = m.get("checks_quick", {}).get(c, {}).get("first", "")
        if first:
            break
    rows.append("| %s | %s | %s | %s |" % (d, " ".join(det) if det else "**missed**", notes[:150].replace("|", "/"), first[:110].replace("|", "/").replace("\n", " ")))
print("| seeded change | caught by | what it is (author's title) | first report |")
print("|---|---|---|---|")
print("\n".join(rows))
