#!/usr/bin/env python3
"""Regenerates /verif/MANIFEST.json from the table below (kept next to the checks so both change together)."""
import json, os
VERIF = os.path.dirname(os.path.dirname(os.path.abspath(__file__)))
props = [json.loads(l) for l in open(os.path.join(VERIF, "properties.jsonl"))]

CLAIMED = {
 "C02": dict(
   level="model_checking",
   text="TLC checks the documented limits, ESC/CAN/SUB behaviour and a bisimulation ('after CAN/SUB as a fresh parser' for continuations of any length) on the VtParser specification; the specification is bound to anstyle-parse in both directions: TLC emits the full transition function, every string of length N over the byte-class alphabet and every transition of the depth-bounded state graph with expected callbacks, which are replayed into the real parser; seeded boundary-biased streams (each also after history++CAN) are recorded from the real parser and validated step by step by the trace specification.",
   design="5/C02",
   note="Trusted: spec/VtTable.tla, Utf8.tla, VtParser.tla as the independent reading of Williams' parser with the crate's documented deviations; TLC; the harness' Perform recorder. Bounded: strings <= 3 (quick) / 4 (thorough) over 43 class representatives, state graph to depth 5/6 x all 256 next bytes, streams are grammar samples.",
   technique="TLA+ spec (VtParser) + TLC: spec-level invariants/bisimulation, TLC-generated behaviours replayed into anstyle-parse, recorded traces validated by TLC"),
 "C01": dict(
   level="model_checking",
   text="TLC explores the product of the reference visibility (projection of the VtParser specification) with the two-phase scanner design over the full byte-class alphabet with a chunk boundary allowed anywhere - a finite automaton, so the design is decided for inputs of any length and any chunking; each named deviation must yield a counterexample. The specification is bound to the code both ways: TLC emits the requirement vector (keep/drop/optional per byte) of every byte string and every UTF-8 string of length N, replayed through every strip API and every chunking; seeded grammar streams through StripBytes/StripStr/StripStream with seeded chunkings are recorded and every call is validated by the Trace_Strip specification.",
   design="5/C01",
   note="Trusted: spec/Strip.tla (reference = projection of VtParser, checked by MC_StripRef), TLC, pointer-offset observation of returned pieces. Bytes of a malformed UTF-8 character are optional in the output except forbidden controls. Known finding F3 (forbidden byte kept after a malformed character) is reported as KNOWN-FINDING.",
   technique="TLA+ spec (Strip over VtTable/Utf8) + TLC: unbounded product automaton, TLC-generated requirement vectors replayed into the strip APIs, recorded traces validated by TLC"),
 "C05": dict(
   level="model_checking",
   text="TLC checks the SGR model for self-consistency on all 4096 effect sets x a colour lattice (render-by-spec then interpret is the identity; combined = separate sequences). Every style of the quantifier is rendered by the real crate through every public path and a format-flag grid and each rendering is validated by the Trace_StyleRender specification: the bytes, run through the VtParser specification, must be nothing but CSI..m dispatches, the Strip reference must keep none of them, and the strict SGR interpretation from the default rendition must equal the style; the reset form is empty iff plain and returns any rendition to default; all paths and flags must have produced one byte string.",
   design="5/C05",
   note="Trusted: spec/Sgr.tla (ECMA-48/xterm SGR semantics, underline kinds as independent flags for rendered output), VtParser, TLC. Quick tier samples RGB components at 19 boundary strata; thorough covers all 256 values per component and slot.",
   technique="TLA+ spec (Sgr + VtParser + Strip) + TLC trace validation of exhaustive renderings; spec-level round-trip model checking"),
 "C06": dict(
   level="model_checking",
   text="TLC explores the StripStream algorithm against an adversarial inner writer - all inputs of length L x all call cuts x all placements of short writes (0..3) and Interrupted/WouldBlock/Other up to a fault budget - and shows the ideal algorithm keeps delivered = visible(consumed) while each deviation of the code (F4, F5) yields a counterexample. Every behaviour TLC explored is emitted as a script and replayed against a scripted inner writer through write, write_vectored, write_all, write! and argument-less write!; the recorded calls (return value, inner writes by pointer offset, accepted counts) are validated by the Trace_StripStream specification (observational layer I1-I4, judge state carried across calls). Seeded long inputs x random scripts likewise.",
   design="5/C06",
   note="Trusted: spec/StripStream.tla over Strip.tla; caller protocol = resubmit tail, retry after Interrupted, stop otherwise. The former findings F5 (state not restored on Err) and F3 were repaired by fix: commits; their tolerances (Tainting/F5Shape, AcceptCtlLeak) stay in the specification as switches that are off, and the canonical witnesses are replayed to show the violation would be reported again.",
   technique="TLA+ spec (StripStream) + TLC: exhaustive fault-script exploration, TLC-generated scripts replayed into StripStream, recorded calls validated by TLC"),
 "C08": dict(
   level="model_checking",
   text="TLC enumerates every sequence of up to 3 (thorough: 4) write-family calls over fragments that cut escape sequences and characters, checks on the design that strip mode keeps exactly the reference's visible text wherever the calls cut, and emits each sequence with the expected inner-writer content for strip and pass-through mode; these are replayed for the four colour choices over Vec<u8>, Box<dyn Write> and File (content of into_inner, current_choice, to_adapted_string). Seeded random operation mixes x four choices x fault scripts are validated call by call by Trace_AutoStream (strip mode = StripStream's observational layer, pass-through = identity, flush forwarded, into_inner = everything accepted).",
   design="5/C08",
   note="Trusted: spec/AutoStream.tla, StripStream.tla, Strip.tla; non-Windows platform (Always = pass-through); environment pinned so that Auto on a non-terminal is Never (the decision itself is C09).",
   technique="TLA+ spec (AutoStream over StripStream) + TLC: op-sequence enumeration replayed into AutoStream, recorded calls validated by TLC"),
 "C03": dict(
   level="model_checking",
   text="Chunk-independence is decided on the design by the strip product automaton (a chunk boundary is allowed between any two bytes, inputs of any length) and by the structure of the judges, which carry their state across calls and never see chunk boundaries. Bound to the code: every enumerated string of length 3 and TLC-simulated random strings of length 9 are run through StripBytes, StripStr (character boundaries), StripStream::write_all for all 2^(n-1) chunkings; each chunked run must satisfy the chunk-independent requirement vector and equal the one-shot result; every SGR input of MC_SgrEnum is run through WinconBytes for every chunking with merged runs compared; long grammar inputs with seeded partitions are validated call by call by Trace_Strip / Trace_StripStream / Trace_Wincon.",
   design="5/C03",
   note="Trusted: Strip.tla, WinconExtract.tla, TLC. All chunkings are exhaustive only for short inputs (<= 9..14 bytes); long inputs use seeded partitions (single chunk, all-single-byte, sizes 1..k).",
   technique="TLA+ spec (Strip product automaton, judges with carried state) + TLC; TLC-generated/simulated inputs replayed under all chunkings; per-call trace validation"),
 "C07": dict(
   level="model_checking",
   text="The extractor is specified as the VtParser specification driving a set-valued SGR semantics (Sgr.tla). TLC checks on the specification that attributes combined in one sequence equal separate sequences, enumerates every sequence of up to 2 (full set) / 3 (reduced set; thorough: full) attribute groups in both spellings with the set of styles allowed for the following text, and these are replayed through WinconBytes under every chunking. Seeded grammar texts (SGR up to 32 parameters, ';' and ':' forms, other CSI/OSC/ESC, UTF-8) with seeded chunkings are recorded and every extract_next call is validated by Trace_Wincon with a judge that carries the parser state and the set of renditions consistent with all observations so far.",
   design="5/C07",
   note="Trusted: Sgr.tla lenient reading (codes 5 6 22-29 59 may or may not take effect; selecting an underline kind may replace previously selected kinds), VtParser.tla, TLC. Parameter lists outside the well-formed grammar leave the style unconstrained until the next full reset.",
   technique="TLA+ spec (WinconExtract = VtParser + Sgr) + TLC: enumerated SGR sequences with allowed-style sets replayed under all chunkings; recorded traces validated by TLC"),
 "C17": dict(
   level="model_checking",
   text="TLC checks that the ideal algorithm (fg code, bg code, data, reset) satisfies the observational specification WinconAnsi!CallOk for all 17x17 colour pairs x data x inner-writer scripts (any whole-character prefix of the data accepted, Interrupted/WouldBlock/Other at any of the up to four inner writes, partial acceptance of a code) and emits every script; each is replayed against a scripted Box<dyn Write>, Vec<u8> and File, and every call is validated by Trace_WinconAnsi: the accepted bytes are run through the VtParser specification and the strict SGR reading - data shown in exactly the requested colours, default restored, nothing but data when no colour is given, Strip gives the data back, reported count = data bytes accepted, inner failures surface.",
   design="5/C17",
   note="Trusted: WinconAnsi.tla, Sgr.tla, VtParser.tla, Strip.tla, TLC. Data is plain text; prefixes are cut at character boundaries. Exhaustive over the stated script space in both tiers (thorough adds more data strings).",
   technique="TLA+ spec (WinconAnsi judged through VtParser+Sgr) + TLC: exhaustive script enumeration replayed into write_colored, calls validated by TLC"),
 "C18": dict(
   level="model_checking",
   text="The platform-independent source of the legacy-console stream (crates/anstream/src/wincon.rs and fmt.rs) is compiled from the working tree into the harness. The specification WinconStream.tla = WinconExtract (VtParser + lenient Sgr) + Cap16 reduction: the bytes the console accepted, tagged with the colours of their call, must be exactly the UTF-8 text of the visible characters, in order, each once, with Cap16(fg)/Cap16(bg) of a rendition consistent with all observations; a buffer is reported consumed only if all its text was handed over; console errors reach the caller. TLC enumerates every SGR sequence of up to 2 groups (and two-run inputs with blank text) with the allowed colour pairs per character, replayed under every chunking via write_all and write; seeded grammar texts x chunkings x op mixes against reliable and faulty consoles, and every behaviour of the algorithm model MC_WinconStream (texts x entry points x console scripts), are validated call by call by Trace_WinconStream.",
   design="5/C18",
   note="Trusted: WinconStream.tla/WinconExtract.tla/Sgr.tla/VtParser.tla, TLC, the stand-ins for crate::stream::{AsLockedWrite,IsTerminal}. The former finding F13 (short console write abandons the rest, Ok(len)) was repaired by a fix: commit; its tolerance (AcceptShortWriteAbandon) is a switch that is off. MC_WinconStream gives the stream's algorithm over an unreliable console as a state machine (DesignOk, Exact, ErrPrefix, Termination under weak fairness); all its behaviours are replayed on the real stream.",
   technique="TLA+ spec (WinconStream over WinconExtract) + TLC: enumerated SGR inputs replayed under all chunkings; recorded console calls validated by TLC"),
 "C20": dict(
   level="model_checking",
   text="TLC runs four instances of the VtParser specification (fixed OSC buffer scaled to Cap bytes or unbounded, UTF-8 on or off) in lockstep over all 7-bit strings to a depth: identical callbacks and observationally equal states while no OSC payload exceeded the buffer; an oversize payload is truncated at the limit (a prefix, at most Cap bytes, later separators counted only while room remains) and what follows is parsed identically. Bound to the code by five recorder binaries built from the working tree (no features, core, utf8, core+utf8, and the crate's own default feature set, which must be the unlimited configuration with UTF-8): 7-bit grammar streams plus OSC payloads of 1000..1100 bytes with 0..20 separators, each followed by ordinary sequences, are recorded and validated step by step by Trace_VtParser instantiated with that configuration's constants (OscRawCap = 1024 with core).",
   design="5/C20",
   note="Trusted: VtParser.tla with its OscRawCap/Utf8On constants, TLC. 7-bit inputs only. The existing test-suite command does not build the non-default feature sets; the check does.",
   technique="TLA+ spec (VtParser with configuration constants) + TLC: four-way lockstep refinement check; per-configuration trace validation of recorded callbacks"),
 "C09": dict(
   level="model_checking",
   text="The documented precedence chain is written as ColorChoice!Query; TLC checks the precedence theorems over the full cross product of 6144 configurations, with witness pairs showing each step decides something, and prints every configuration with the expected decision, the mode an AutoStream must report and every probe's value. A single-threaded harness process applies all 6144 configurations by mutating its environment one variable at a time (reflected Gray order, so a cached probe would be caught) and compares AutoStream::choice, AutoStream::auto(..).current_choice(), ColorChoice::global and the anstyle-query probes for Vec<u8>, File, Box<dyn Write> and a real terminal (slave side of a pty); COLORTERM x truecolor and the clap flag are enumerated separately.",
   design="5/C09",
   note="Trusted: ColorChoice.tla (the statement, word for word; probe conventions from no-color.org / bixense clicolors), TLC, openpty. Non-Windows platform. Exhaustive in both tiers.",
   technique="TLA+ spec (ColorChoice) + TLC: theorems over the full configuration product; all TLC-enumerated configurations replayed into the real decision procedure"),
 "C11": dict(
   level="model_checking",
   text="git's colour syntax is specified on code-point sequences (GitStyle.tla: lexer, word machine, errors naming the original word, printing). TLC checks the print/parse round trip for every expressible style of a bounded domain, and enumerates every description of up to 2 (thorough: 3) words over a 61-word vocabulary (attributes, negations, colours, boundary numbers, hex forms, near misses, non-ASCII) in several whitespace spellings with the expected result; these are replayed into anstyle_git::parse. Seeded grammar/mutation/near-miss/Unicode descriptions are recorded and every call is validated by Trace_GitStyle.",
   design="5/C11",
   note="Trusted: GitStyle.tla, TLC. ASCII case folding only (U+212A, U+0130 outside the domain); #rgb = per-digit values as the crate's pinned tests define; leading zeros accepted.",
   technique="TLA+ spec (GitStyle) + TLC: round-trip model checking, exhaustive vocabulary enumeration replayed into the parser, recorded calls validated by TLC"),
 "C12": dict(
   level="model_checking",
   text="LsColors.tla specifies the all-or-nothing split into 0-255 numbers and the left fold of SGR codes with look-ahead for 38/48/58. TLC enumerates every list of up to 2 (thorough: 3) codes over 0..110, 200, 255 with the expected style, replayed into anstyle_ls::parse; seeded lists of up to 40 codes with leading zeros, extended colours and malformed fields are recorded and every call is validated by Trace_LsColors.",
   design="5/C12",
   note="Trusted: LsColors.tla, TLC. Truncated/malformed extended colours are outside the statement (any non-panicking result accepted).",
   technique="TLA+ spec (LsColors) + TLC: exhaustive code-list enumeration replayed into the parser, recorded calls validated by TLC"),
 "C13": dict(
   level="model_checking",
   text="StyleAlgebra.tla defines Effects as subsets of the twelve declared effects (bit i <-> i-th declared effect), Style as a record and the colour index arithmetic. The real operations are observed in batches - for every a in 0..4095 one event with insert, |, remove, -, set(true), set(false), contains against a family of b (quick: all b with <= 2 or >= 10 members plus 40 seeded; thorough: all 4096), iteration order, Debug names, is_plain, clear; style setter/getter independence, convenience methods, Style|Effects, Style-Effects, Style==Effects; AnsiColor <-> Ansi256[0..15] and the bright/normal projection for all 16 colours and 256 indices - and every event is validated by TLC against the set-theoretic definitions.",
   design="5/C13",
   note="Trusted: StyleAlgebra.tla (plain set theory), TLC. Effect sets are observed through contains(single effect), iter() and Debug, which must agree with each other and the model. Quick covers 198 b per a; thorough all 4096 x 4096.",
   technique="TLA+ spec (StyleAlgebra) + TLC trace validation of batched exhaustive operation results"),
 "C10": dict(
   level="model_checking",
   text="Lossy.tla defines the 240 fixed colours (6x6x6 cube + grey ramp), the red-mean metric (compuphase formula, no square root, scaled by 512) and IsNearest (minimal distance, lowest index on ties); TLC checks structural facts of the specification. Every conversion call of the crate is recorded as an event and validated by TLC: all 256 indices and 16 palette colours for the small conversions x {VGA, WIN10, duplicate, extreme, seeded random palettes} exhaustively, every exact table and palette entry, and RGB samples aimed by a sweep - all 2^24 values (thorough) or a 2^18 lattice (quick) are compared with a transliteration of the operator and every disagreement (capped), near-tie (capped) and a stratified sample are forwarded to TLC, which alone decides.",
   design="5/C10",
   note="Trusted: Lossy.tla, TLC. TLC costs ~3 ms per 240-candidate colour, so 'all 2^24' is reached by the transliteration sweep and decided by TLC on the forwarded subset (DESIGN section 6).",
   technique="TLA+ spec (Lossy) + TLC trace validation of conversion calls; exhaustive small conversions; sweep-aimed RGB sample"),
 "C16": dict(
   level="model_checking",
   text="Convert.tla states, per target library, what it can express and how a rendering is judged: the converted style is rendered by the target library itself around a marker character, the bytes are run through the VtParser specification and the strict SGR reading, and the rendition in force at the marker must equal the style restricted to the expressible attributes (hues never altered, brightness where a per-colour form exists, indexed/RGB exact, nothing invented). Every rendering of the quantifier - 16 + 256 colours and an RGB lattice per slot, effect sets with <= 2 members plus a seeded eighth (quick) or all 4096 (thorough), alone and with seeded colours, for ansi_term, crossterm, owo-colors, termcolor, yansi; syntect by field comparison incl. alpha values - is an event validated by TLC.",
   design="5/C16",
   note="Trusted: Convert.tla's Expressible table (from the libraries' APIs at the adapters' minimum versions), Sgr.tla, VtParser.tla, TLC; the third-party libraries' own renderers are the observation channel.",
   technique="TLA+ spec (Convert over VtParser+Sgr) + TLC trace validation of library renderings"),
 "C15": dict(
   level="model_checking",
   text="Roff.tla derives the input's segments from the parser specification (style = strict SGR reading of the introducing sequence, text = what is printed until the next one) and states what the document must be, line by line: per segment .gcolor / .fcolor with the right names, the text block in \\fB / \\fI / roman per the bold-or-bright, italic, roman rule with roff escaping undone - and no other line may start with '.' or an apostrophe. Every document produced by to_roff(..).to_roff() for the single-segment space (17x17 colour pairs x effect subsets) and for seeded multi-segment texts over an alphabet of roff-special characters is validated by TLC.",
   design="5/C15",
   note="Trusted: Roff.tla, Sgr.tla, VtParser.tla, TLC. Domain as stated in the property. Open finding F16 (bold+dim in one sequence: cansi's single intensity field) reported from its witness.",
   technique="TLA+ spec (Roff over VtParser+Sgr) + TLC trace validation of rendered documents"),
 "C14": dict(
   level="model_checking",
   text="Every SVG produced by render_svg for seeded SGR-rich texts (generator of C07 plus XML-special characters, wide and zero-width characters, CRLF) x {VGA, WIN10} x default colours x background on/off is parsed by expat into rows of spans together with the meaning of each span's classes according to the document's own style sheet, and validated by TLC against Svg.tla: lines = visible text split at LF with CR before LF dropped; every character's span means a rendition the extractor specification (VtParser + lenient Sgr) allows for that character, with invert swapping fg/bg against the configured defaults and colours as the configured palette assigns them (Lossy); no class used is undefined; background rows show only expected colours; height = lines * 18 + 2 * padding.",
   design="5/C14",
   note="Trusted: Svg.tla/WinconExtract.tla/Sgr.tla/Lossy.tla/VtParser.tla, TLC. XML well-formedness is decided by expat (observation tooling tools/svg2json.py), not by the specification. Background rows are compared as sets of colours per line.",
   technique="TLA+ spec (Svg over WinconExtract + Lossy) + TLC trace validation of expat-parsed documents"),
 "C19": dict(
   level="model_checking",
   text="PrintLock.tla models a print call as Acquire; WriteFragment*; Release; TLC explores all schedules of 3 threads x 2 calls x 3 fragments and shows the output is a concatenation of whole records, while the per-fragment-locking variant (what a non-forwarded write_fmt/write_all does) yields an interleaving counterexample. Real schedules: a child process with 2..16 threads issues multi-fragment print!/println!/write!/write_all calls (escape sequences split across fragments, buffers longer than std's line buffer) through anstream::stdout()/stderr() into a shrunk pipe read slowly, in stripping and pass-through mode; the byte stream is cut into fragments and validated by Trace_PrintLock. AtomicChoice.tla specifies the global choice as a linearizable register; histories of concurrent readers/writers (short rounds and long stress rounds), ordered by SeqCst invocation/response numbers, are checked by a TLC depth-first search for a linearization.",
   design="5/C19",
   note="TLC explores all schedules of the model; the real threads show only the schedules the OS produces (16 cores, small pipe, slow reader). No hook is placed inside std's lock. Trusted: PrintLock.tla, AtomicChoice.tla, TLC, the tokenizer of the pipe content.",
   technique="TLA+ spec (PrintLock, AtomicChoice) + TLC: exhaustive schedule exploration of the model; TLAPS proof of the lock-per-call design for any number of threads, calls and fragments; observed pipe output and register histories validated by TLC (linearization search)"),
 "C04": dict(
   level="exploration",
   text="Seeded escape-rich, boundary-rich, arbitrary-byte and arbitrary-Unicode inputs are pushed through every entry point the statement lists (parser, strip and styled-run adapters, strip stream, git and LS_COLORS parsers, lossy conversion with arbitrary palettes, render_svg, to_roff) in a build with debug assertions and overflow checks on, each call under catch_unwind; returned text pieces must be valid UTF-8 lying inside the input; one event per input is validated by the Trace_Total specification (totality: a panic is never a behaviour of the specification). TLC additionally checks, on the specification, the state invariants that make the crate's unsafe blocks sound (parameter/intermediate/OSC bookkeeping limits, text pieces on character boundaries). The same exploration runs a second time in an AddressSanitizer build (nightly toolchain; skipped with a note in the evidence when it is absent). Thorough tier: Apalache discharges an inductive invariant of the parameter bookkeeping at its real size (index safety of Params push/extend and of its iterator, for all states). All other checks also record panics as data and reject them.",
   design="5/C04",
   note="Exploration level: absence of memory errors cannot be decided by traces; AddressSanitizer sees out-of-bounds and use-after-free in the crates' code but not uninitialised reads or invalid enum values (Miri is too slow here: 200 inputs > 25 min). Trusted: the harness' catch_unwind and pointer-range observation.",
   technique="TLA+ spec invariants (VtParser limits, Strip boundaries) checked by TLC, Params inductive invariant by Apalache (thorough) + seeded exploration of all entry points (ordinary and AddressSanitizer build) validated against the totality trace specification"),
}
PENDING_REASON = "check not built yet in this revision of /verif (planned with the TLA+ specification, see DESIGN.md section 5); not claimed until its quick command exists"

checks, na = [], []
for p in props:
    pid = p["id"]
    c = CLAIMED.get(pid)
    if not c:
        na.append({"property_id": pid, "reason": PENDING_REASON})
        continue
    checks.append({
        "property_id": pid,
        "quick_cmd": "python3 tools/verif.py check %s --tier quick" % pid,
        "thorough_cmd": "python3 tools/verif.py check %s --tier thorough" % pid,
        "evidence_file": "/verif/evidence/%s.json" % pid,
        "replay_cmd_template": "python3 tools/verif.py replay {path}",
        "engine": "tlc+vh",
        "level_claimed": {"category": c["level"], "text": c["text"], "design_ref": c["design"]},
        "level_note": c["note"],
        "technique": c["technique"],
    })
m = {
 "version": 1,
 "setup_cmd": "python3 tools/verif.py setup",
 "hooks": {
   "guard": "anstyle_verif",
   "enable": "RUSTFLAGS --cfg anstyle_verif via /verif/harness/.cargo/config.toml (no hook is compiled into /repo at present: every observation uses the public API)",
   "baseline_off_cmd": "cd /repo && cargo test --workspace --no-fail-fast --offline",
   "source_commits": [],
   "add_only": True,
 },
 "engines": [
   {"name": "tlc+vh", "path": "/verif/tools/verif.py", "serves_properties": [c["property_id"] for c in checks],
    "kind_free_text": "explicit TLA+ specification in /verif/spec checked by TLC; Rust conformance harness /verif/harness (replays TLC-generated behaviours into the crates; records traces that TLC validates)"},
 ],
 "checks": checks,
 "not_applicable": na,
 "notes": "Known findings: /verif/findings/known-findings.jsonl. Seeded changes used to test the checks: /verif/seeded/.",
}
json.dump(m, open(os.path.join(VERIF, "MANIFEST.json"), "w"), indent=1)
print("MANIFEST.json: %d checks, %d not_applicable" % (len(checks), len(na)))
