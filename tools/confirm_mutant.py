#!/usr/bin/env python3
"""Confirm a seeded change in the scratch worktree /tmp/mut/confirm (a worktree of /repo's HEAD), run the checks against
/repo with the change applied, and store it under /verif/seeded/<id>/.
usage: confirm_mutant.py <PROP> <m-dir> <seed-id> [--patch <rebased.diff>] [--checks C01,C03] [--demo-args "..."]"""
import argparse, json, os, re, shutil, subprocess, sys, time

ap = argparse.ArgumentParser()
ap.add_argument("prop"); ap.add_argument("mdir"); ap.add_argument("sid")
ap.add_argument("--patch"); ap.add_argument("--checks"); ap.add_argument("--demo-args", default=""); ap.add_argument("--crate"); ap.add_argument("--worktree", default="/tmp/mut/confirm"); ap.add_argument("--phase", default="both", choices=["both", "confirm", "check"])
a = ap.parse_args()
W = a.worktree
# a lane (tools/lane.sh) = an isolated copy of the tree under test and of /verif; default: /repo and /verif themselves
REPO = os.environ.get("LANE_REPO", "/repo")
VERIF_DIR = os.environ.get("LANE_VERIF", "/verif")


def sh(cmd, cwd=W, timeout=1800):
    r = subprocess.run(cmd, shell=True, cwd=cwd, stdout=subprocess.PIPE, stderr=subprocess.STDOUT, text=True, timeout=timeout)
    return r.returncode, r.stdout


def clean():
    sh("git checkout -q -- . && git clean -fdq crates")


patch = a.patch or os.path.join(a.mdir, "patch.diff")
notes = open(os.path.join(a.mdir, "notes.md")).read() if os.path.exists(os.path.join(a.mdir, "notes.md")) else ""
crate = a.crate
if not crate:
    m = re.search(r"crates/([a-z0-9_-]+)/tests/demo\.rs", notes)
    crate = m.group(1) if m else re.search(r"crates/([a-z0-9_-]+)/", open(patch).read()).group(1)
demo_src = os.path.join(a.mdir, "demo.rs")
meta = {"id": a.sid, "property": a.prop, "demo_crate": crate, "rebased": bool(a.patch), "ran": []}
d = os.path.join("/verif/seeded", a.sid)
if a.phase == "check":
    meta = json.load(open(os.path.join(d, "meta.json")))
    patch = os.path.join(d, "patch.diff")
demo_cmd = "cargo test --offline --manifest-path crates/%s/Cargo.toml --test demo %s" % (crate, a.demo_args)


def put_demo():
    os.makedirs(os.path.join(W, "crates", crate, "tests"), exist_ok=True)
    shutil.copy(demo_src, os.path.join(W, "crates", crate, "tests", "demo.rs"))


def confirm_phase():
  global confirmed
  clean()
  put_demo()
  rc, out = sh(demo_cmd)
  meta["demo_passes_without_change"] = rc == 0
  meta["ran"].append(demo_cmd + " (unchanged tree) -> rc %d" % rc)
  clean()
  rc, out = sh("git apply %s" % patch)
  if rc != 0:
      print("PATCH DOES NOT APPLY", out[-400:]); sys.exit(3)
  rc, out = sh("cargo build --workspace --offline 2>&1 | tail -3")
  meta["builds"] = rc == 0
  rc, out = sh("cargo test --workspace --no-fail-fast --offline 2>&1 | grep -E '^test result|FAILED|panicked' ")
  passed = sum(int(x) for x in re.findall(r"ok\. (\d+) passed", out))
  failed = sum(int(x) for x in re.findall(r"(\d+) failed", out))
  meta["suite_with_change"] = {"passed": passed, "failed": failed}
  meta["ran"].append("cargo test --workspace --no-fail-fast --offline (with change) -> %d passed, %d failed" % (passed, failed))
  put_demo()
  rc, out = sh(demo_cmd)
  meta["demo_fails_with_change"] = rc != 0
  meta["ran"].append(demo_cmd + " (with change) -> rc %d" % rc)
  clean()
  confirmed = meta["demo_passes_without_change"] and meta["builds"] and failed == 0 and passed >= 139 and meta["demo_fails_with_change"]
  meta["confirmed"] = confirmed


confirmed = False
if a.phase != "check":
    confirm_phase()
else:
    confirmed = meta["confirmed"]
# our checks against /repo with the change
checks = (a.checks.split(",") if a.checks else [a.prop])
res = {}
rc = 1
if a.phase != "confirm" and confirmed:
    rc, out = sh("git apply %s" % patch, cwd=REPO)
if rc == 0:
    try:
        for c in checks:
            t0 = time.time()
            r = subprocess.run(["python3", VERIF_DIR + "/tools/verif.py", "check", c, "--tier", "quick"], cwd=VERIF_DIR, stdout=subprocess.PIPE, stderr=subprocess.PIPE, text=True, timeout=3600)
            first = [l for l in r.stderr.split("\n") if l.startswith("  -> ")][:1]
            res[c] = {"exit": r.returncode, "violations": r.stdout.count("VIOLATION property="), "first": (first[0][5:305] if first else ""), "wall_s": round(time.time() - t0)}
    finally:
        sh("git checkout -q -- .", cwd=REPO)
meta["checks_quick"] = res
meta["detected_by"] = [c for c, v in res.items() if v["exit"] == 1]
m = re.search(r"(?is)(needs|manifest|trigger)[^\n]*\n?[^\n]*", notes)
meta["what_it_needs"] = ""
if confirmed:
    os.makedirs(d, exist_ok=True)
    if a.phase != "check":
        for src, dst in ((patch, os.path.join(d, "patch.diff")), (demo_src, os.path.join(d, "demo.rs"))):
            if os.path.abspath(src) != os.path.abspath(dst):
                shutil.copy(src, dst)
    if notes and a.phase != "check":
        if os.path.abspath(os.path.join(a.mdir, "notes.md")) != os.path.abspath(os.path.join(d, "notes.md")):
            open(os.path.join(d, "notes.md"), "w").write(notes)
    json.dump(meta, open(os.path.join(d, "meta.json"), "w"), indent=1)
print(json.dumps({k: meta[k] for k in ("id", "confirmed", "demo_passes_without_change", "suite_with_change", "demo_fails_with_change", "detected_by")}))
