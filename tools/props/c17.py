"""C17 - ANSI fallback for coloured writes frames the data and reports true progress.

 S  MC_WinconAnsi: the ideal algorithm (fg code, bg code, data, reset as separate inner writes) satisfies
    WinconAnsi!CallOk for all 17x17 colour pairs x data x scripts (accept any whole-character prefix of the data,
    fail with Interrupted/WouldBlock/Other at any of the up to four inner writes, partial acceptance of a code).
 A  every script replayed against Box<dyn Write> (scripted), Vec<u8> and File; every call validated by
    Trace_WinconAnsi: accepted bytes -> VtParser -> strict SGR: data shown in exactly the requested colours, default
    restored, Strip gives the data back, count = data bytes accepted, inner failure surfaces.
"""
import json, os
import vlib
from props.c02 import mk_cfg


def run(chk):
    vh = vlib.build_harness("vh")
    quick = chk.tier == "quick"
    chk.rule = ("all 289 colour pairs x data x fault scripts (fail position 0..4 x kind, data prefix, short code write); non-trivial = "
                "script with a fault or a short write")
    chk.assumptions = ["data is plain text (no escape sequence); the inner writer may accept ANY prefix of it, also one that ends inside a character", "Interrupted inside std's write_all of a code is retried, not surfaced"]
    wd = vlib.workdir("c17")
    cfg = mk_cfg("spec/mc/MC_WinconAnsi.cfg", os.path.join(wd, "m.cfg"), {"AllData": not quick})
    shards = 8
    files = [open(os.path.join(wd, "scripts-%d.ndjson" % i), "w") for i in range(shards)]
    n = [0]

    def sink(o):
        files[n[0] % shards].write(json.dumps(o, separators=(",", ":")) + "\n")
        n[0] += 1
        if o["failAt"] != 0 or o["shortCode"] or o["pre"] < len(o["data"]):
            chk.nontrivial_count += 1
    r = vlib.tlc_run("spec/mc/MC_WinconAnsi.tla", cfg, "c17-mc", workers=8, payload_sink=sink, timeout=3000)
    for f in files:
        f.close()
    if not r.ok:
        raise vlib.ToolError("MC_WinconAnsi failed (%s):\n%s" % (r.violated, vlib.tlc_counterexample(r)))
    chk.add_tlc(r, "S_A_scripts")
    events = 0
    traces = []
    for i in range(shards):
        tp = os.path.join(wd, "trace-%d.ndjson" % i)
        out = vlib.run_harness(vh, ["ansi-replay", os.path.join(wd, "scripts-%d.ndjson" % i), tp]).stdout
        events += json.loads(out.strip().split("\n")[-1])["summary"]["events"]
        traces.append(tp)

    # the fallback is an explicit request for colour: what the process environment says about colour does not change the frame
    tp = os.path.join(wd, "trace-env.ndjson")
    out = vlib.run_harness(vh, ["ansi-replay", os.path.join(wd, "scripts-0.ndjson"), tp],
                           env={"NO_COLOR": "1", "CLICOLOR": "0", "TERM": "dumb", "CLICOLOR_FORCE": "0"}).stdout
    events += json.loads(out.strip().split("\n")[-1])["summary"]["events"]
    traces.append(tp)

    def val(p):
        ok, rej, res = vlib.tlc_trace(p, "Trace_WinconAnsi", "c17-" + os.path.basename(p), timeout=3000)
        return p, ok, rej, res
    for p, ok, rej, res in vlib.parallel(val, traces, jobs=8):
        chk.add_tlc(res)
        if not ok:
            e = rej["event"]
            chk.violation("write_colored(fg=%s,bg=%s,data=%s) on %s: inner writes %s, returned %s - rejected by Trace_WinconAnsi"
                          % (e["fg"], e["bg"], e["data"], e.get("impl"), json.dumps(e["inner"])[:300], e["ret"]), {"kind": "ansi-call", "event": e})
    chk.traces += events
    chk.evaluations += events
    chk.part("A_calls", scripts=n[0], calls_validated=events, exhaustive=True)
    chk.sample({"call": json.loads(open(traces[0]).readline())})
    chk.exhaustive = True


def replay(obj):
    wd = vlib.workdir("replay")
    p = os.path.join(wd, "e.ndjson")
    print(json.dumps(obj["event"]))
    vlib.write_lines(p, [obj["event"]])
    ok, rej, _ = vlib.tlc_trace(p, "Trace_WinconAnsi", "replay-c17")
    print("recorded call:", "accepted" if ok else "rejected")
    return 0 if ok else 1


def selftest():
    wd = vlib.workdir("c17-self")
    p = os.path.join(wd, "e.ndjson")
    good = {"fg": 1, "bg": 16, "data": [97], "inner": [[[27, 91, 51, 49, 109], "ok", 5], [[97], "ok", 1], [[27, 91, 48, 109], "ok", 4]], "ret": ["ok", 1], "whole": False}
    bad = json.loads(json.dumps(good)); bad["inner"][0][0][3] = 50
    vlib.write_lines(p, [good, bad])
    ok, rej, _ = vlib.tlc_trace(p, "Trace_WinconAnsi", "c17-self")
    return (not ok) and rej["reject_at"] == 2
