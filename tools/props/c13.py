"""C13 - style, effects and colour values obey their algebra.

 S  the laws are trivial on sets (StyleAlgebra.tla defines Effects as subsets, bit i <-> i-th declared effect).
 B  batched observations of the real operations validated by Trace_StyleAlgebra: for every a in 0..4095 one event with
    insert / | / remove / - / set(true) / set(false) / contains against a family of b (quick: all b with <= 2 or >= 10
    members + 40 seeded; thorough: all 4096), iteration order, Debug names, is_plain, clear; style setter/getter
    independence, convenience methods, Style|Effects, Style-Effects, Style==Effects; AnsiColor <-> Ansi256[0..15]
    and bright/normal projection for all 16 / 256 values.
"""
import json, os
import vlib


def run(chk):
    vh = vlib.build_harness("vh")
    quick = chk.tier == "quick"
    chk.rule = ("effect-set pairs (a, b): all 4096 a x structured/seeded b (quick) or all 4096 x 4096 (thorough), 7 operations each; "
                "non-trivial = pairs (counted) ; seeded styles for the setter/getter laws; all 16 colours and 256 indices")
    chk.assumptions = ["effect sets are observed through contains(single effect), iter() and Debug - the three must agree with each other and the model"]
    wd = vlib.workdir("c13")
    shards = 12 if quick else 16
    prefix = os.path.join(wd, "alg")
    out = vlib.run_harness(vh, ["algebra-record", chk.seed, 0 if quick else 1, shards, prefix], timeout=3600).stdout
    summ = json.loads(out.strip().split("\n")[-1])["summary"]

    def val(k):
        p = "%s-%d.ndjson" % (prefix, k)
        ok, rej, r = vlib.tlc_trace(p, "Trace_StyleAlgebra", "c13-%d" % k, timeout=20000, xmx="2g" if quick else "6g")
        return ok, rej, r
    for ok, rej, r in vlib.parallel(val, range(shards), jobs=12 if quick else 8):
        chk.add_tlc(r)
        if not ok:
            e = rej["event"]
            if e.get("k") == "eff":
                e = {k: (v if k != "res" and k != "bs" else "...") for k, v in e.items()} | {"note": "full event in the replay file"}
            chk.violation("algebra law violated: %s" % json.dumps(e)[:400], {"kind": "algebra-event", "event": rej["event"]})
    chk.traces += summ["events"]
    chk.evaluations += summ["effect_pairs"] * 7 + summ["events"]
    chk.nontrivial_count += summ["effect_pairs"]
    chk.part("B_events", events=summ["events"], effect_pairs=summ["effect_pairs"], exhaustive_pairs=not quick)
    chk.sample({"event": json.loads(open(prefix + "-0.ndjson").read().split("\n")[-3])})
    chk.exhaustive = not quick


def replay(obj):
    wd = vlib.workdir("replay")
    p = os.path.join(wd, "e.ndjson")
    vlib.write_lines(p, [obj["event"]])
    ok, rej, _ = vlib.tlc_trace(p, "Trace_StyleAlgebra", "replay-c13")
    print(json.dumps(obj["event"])[:1500])
    print("recorded event:", "accepted" if ok else "rejected")
    return 0 if ok else 1


def selftest():
    wd = vlib.workdir("c13-self")
    p = os.path.join(wd, "e.ndjson")
    good = {"k": "col", "i": 13, "from_ansi": 13, "into_ansi": 13, "bright1": 13, "bright0": 5, "is_bright": True}
    bad = dict(good); bad["into_ansi"] = 14
    vlib.write_lines(p, [good, bad])
    ok, rej, _ = vlib.tlc_trace(p, "Trace_StyleAlgebra", "c13-self")
    return (not ok) and rej["reject_at"] == 2
