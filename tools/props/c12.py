"""C12 - the LS_COLORS parser applies SGR codes left to right.

 A  MC_LsColors: every list of up to 2 (thorough: 3) codes over 0..110 plus 200, 255 with the style LsColors!Parse
    assigns, replayed into anstyle_ls::parse.
 B  seeded well-formed lists of up to 40 codes with leading zeros and extended colours, and malformed inputs (empty
    fields, signs, spaces, > 255, non-ASCII digits); every call validated by Trace_LsColors.
"""
import vlib
from props import c11


def run(chk):
    vh = vlib.build_harness("vh")
    quick = chk.tier == "quick"
    chk.rule = "A: all lists of 1..N codes over 0..110,200,255; B: seeded long lists and malformed inputs (non-trivial as in C11)"
    chk.assumptions = ["a truncated or malformed extended colour (38/48/58) is outside the statement: any non-panicking result is accepted",
                       "'no style' and 'rejected' are both None in the API; they are told apart by the input ('', '0', '00')"]
    c11.parser_check(chk, vh, "MC_LsColors", {"Codes": 2 if quick else 3, "Top": 110 if quick else 110}, "Trace_LsColors", "ls-replay", "ls-record",
                     8 if quick else 32, 1500 if quick else 6000, "anstyle_ls::parse")
    chk.exhaustive = False


replay = c11.replay


def selftest():
    import os, json
    wd = vlib.workdir("c12-self")
    p = os.path.join(wd, "t.ndjson")
    good = {"s": [49], "r": ["ok", {"fg": ["none"], "bg": ["none"], "ul": ["none"], "eff": ["BOLD"]}]}
    bad = {"s": [49], "r": ["ok", {"fg": ["none"], "bg": ["none"], "ul": ["none"], "eff": ["DIMMED"]}]}
    vlib.write_lines(p, [good, bad])
    ok, rej, _ = vlib.tlc_trace(p, "Trace_LsColors", "c12-self")
    return (not ok) and rej["reject_at"] == 2
