"""C02 - the parser reports exactly the events of the VT500 state machine.

 S  MC_VtLimits (documented limits, ESC clears, CAN/SUB -> Ground, Norm bisimulation = "as fresh" for
    continuations of any length), MC_VtCancel (explicit two-copy lockstep)
 A1 MC_VtTable: every cell of the transition function vs state_change
 A2 MC_VtEnum: every string of length N over the class alphabet with expected callbacks, replayed
 B  seeded boundary-biased grammar streams (each also after history ++ CAN/SUB) recorded from the real
    parser and validated step by step by Trace_VtParser
"""
import json, os, re
import vlib

STATE_MAP = {"Anywhere": "-"}
ACTION_MAP = {"Nop": "None", "Ignore": "None"}
VT_CONSTS = {"MaxParams": 32, "MaxInter": 2, "MaxOsc": 16, "ParamCap": 65535, "OscRawCap": 0, "Utf8On": True}


def mk_cfg(base, out, consts):
    txt = open(os.path.join(vlib.VERIF, base)).read()
    for k, v in consts.items():
        val = "TRUE" if v is True else "FALSE" if v is False else str(v)
        txt, n = re.subn(r"(^\s*%s\s*=\s*)\S+" % re.escape(k), lambda m: m.group(1) + val, txt, flags=re.M)
        if n == 0:
            raise vlib.ToolError("constant %s not in %s" % (k, base))
    open(out, "w").write(txt)
    return out


def eval_expected(inputs, name="eval-vt", consts=None, module="Eval_VtParser"):
    wd = vlib.workdir(name)
    inp = os.path.join(wd, "in.ndjson")
    vlib.write_lines(inp, [{"i": list(i)} for i in inputs])
    cfg = "spec/mc/%s.cfg" % module
    if consts:
        cfg = mk_cfg(cfg, os.path.join(wd, "e.cfg"), consts)
    r = vlib.tlc_run("spec/mc/%s.tla" % module, cfg, name + "-tlc", workers=1, env={"INPUT": inp}, xss="1g")
    if not r.ok:
        raise vlib.ToolError("eval failed: " + r.raw_tail[-2000:])
    return r.lines


def minimize_vt(vh, input_bytes, consts=None):
    """shrink a byte string on which the parser's callbacks differ from the specification"""
    def failing(cands):
        exp = eval_expected(cands, name="min-vt", consts=consts)
        wd = vlib.workdir("min-vt-cases")
        p = os.path.join(wd, "c.ndjson")
        vlib.write_lines(p, exp)
        out = vlib.run_harness(vh, ["vt-replay", p]).stdout
        bad = set()
        for l in out.strip().split("\n"):
            o = json.loads(l)
            if "mismatch" in o:
                bad.add(tuple(o["mismatch"]["input"]))
        return [tuple(c) in bad for c in cands]
    try:
        return vlib.ddmin(input_bytes, failing)
    except vlib.ToolError:
        return list(input_bytes)


def check_table(chk, vh):
    r = vlib.tlc_run("spec/mc/MC_VtTable.tla", "spec/mc/MC_VtTable.cfg", "c02-table", workers=1)
    if not r.ok:
        raise vlib.ToolError("MC_VtTable failed: " + r.raw_tail[-2000:])
    spec = {}
    for row in r.lines:
        cells_ = row if isinstance(row, list) else list(row.values()) if isinstance(row, dict) and "reps" not in row else []
        if cells_:
            for c in cells_:
                spec[(c["s"], c["b"])] = (c["n"], "None" if c["a"] in ("None", "Ignore") else c["a"])
    out = vlib.run_harness(vh, ["table"]).stdout.split("\n")
    impl = {}
    for l in out:
        p = l.split()
        if len(p) == 4:
            impl[(p[0], int(p[1]))] = (STATE_MAP.get(p[2], p[2]), ACTION_MAP.get(p[3], p[3]))
    cells = 0
    for key, exp in sorted(spec.items()):
        if key[0] in ("Anywhere", "Utf8"):
            continue  # pseudo rows: compared below through the rows that embed them
        cells += 1
        got = impl.get(key)
        if got != exp:
            chk.violation("transition function differs at state %s byte %d: spec %s, code %s" % (key[0], key[1], exp, got),
                          {"kind": "vt-table", "state": key[0], "byte": key[1], "expected": exp, "observed": got})
    chk.evaluations += cells
    chk.nontrivial_count += cells
    chk.part("A1_table", cells=cells, exhaustive=True)
    chk.sample({"table_cell": {"state": "CsiParam", "byte": 58, "spec": spec[("CsiParam", 58)]}})


def replay_cases(chk, vh, path, kind, label, cmd="vt-replay"):
    out = vlib.run_harness(vh, [cmd, path]).stdout.strip().split("\n")
    summary = None
    for l in out:
        o = json.loads(l)
        if "mismatch" in o:
            m = o["mismatch"]
            chk.violation("%s: callbacks differ at byte %d of input %s" % (label, m["at"], m["input"]),
                          {"kind": "vt-string", "input": m["input"], "at": m["at"], "expected": m["expected"], "observed": m["observed"]})
        elif "summary" in o:
            summary = o["summary"]
    if summary is None:
        raise vlib.ToolError("vt-replay produced no summary")
    return summary


def check_enum(chk, vh, n, firsts=None):
    wd = vlib.workdir("c02-enum")
    kinds = {}
    total = {"cases": 0, "nontrivial": 0}

    def one(first):
        cfg = mk_cfg("spec/mc/MC_VtEnum.cfg", os.path.join(wd, "enum-%s.cfg" % first), {"N": n, "First": first})
        path = os.path.join(wd, "cases-%s.ndjson" % first)
        f = open(path, "w")
        info = {}

        def sink(o):
            if "alphabet" in o:
                info["alphabet"] = o["alphabet"]
                return
            f.write(json.dumps(o, separators=(",", ":")) + "\n")
            for evs in o["e"]:
                for e in evs:
                    kinds[e["k"]] = kinds.get(e["k"], 0) + 1
        r = vlib.tlc_run("spec/mc/MC_VtEnum.tla", cfg, "c02-enum-%s" % first, workers=4 if firsts else 8,
                         payload_sink=sink, timeout=3000)
        f.close()
        if not r.ok:
            raise vlib.ToolError("MC_VtEnum failed: " + r.raw_tail[-2000:])
        s = replay_cases(chk, vh, path, "vt-string", "enumerated string")
        os.remove(path)
        return r, s, info

    results = [one(256)] if not firsts else vlib.parallel(one, firsts, jobs=4)
    for r, s, info in results:
        chk.add_tlc(r)
        total["cases"] += s["cases"]
        total["nontrivial"] += s["nontrivial"]
    chk.evaluations += total["cases"]
    chk.nontrivial_count += total["nontrivial"]
    chk.part("A2_enum", n=n, strings=total["cases"], event_kinds=kinds, exhaustive=True)
    need = {"print", "exec", "csi", "esc", "osc", "hook"} | ({"put", "unhook"} if n >= 4 else set())
    missing = need - set(kinds)
    if missing:
        raise vlib.ToolError("vacuous enumeration: callback kinds never expected: %s" % sorted(missing))
    chk.sample({"enumerated_string": [27, 91, 49, 109][:n], "note": "each string is replayed with the per-byte callbacks TLC printed"})


def check_graph(chk, vh, depth):
    wd = vlib.workdir("c02-graph")
    cfg = mk_cfg("spec/mc/MC_VtGraph.cfg", os.path.join(wd, "g.cfg"), {"Depth": depth})
    path = os.path.join(wd, "graph.ndjson")
    kinds = {}
    with open(path, "w") as f:
        def sink(o):
            f.write(json.dumps(o, separators=(",", ":")) + "\n")
            for evs in o["nx"]:
                for e in evs:
                    kinds[e["k"]] = kinds.get(e["k"], 0) + 1
        r = vlib.tlc_run("spec/mc/MC_VtGraph.tla", cfg, "c02-graph", workers=8, payload_sink=sink, timeout=3000)
    if not r.ok:
        raise vlib.ToolError("MC_VtGraph failed: " + r.raw_tail[-2000:])
    chk.add_tlc(r, "A3_graph")
    s = replay_cases(chk, vh, path, "vt-string", "state-graph transition", cmd="vt-graph")
    os.remove(path)
    chk.evaluations += s["nontrivial"]
    chk.nontrivial_count += s["cases"]
    chk.part("A3_graph", depth=depth, abstract_states=s["cases"], transitions_tested=s["nontrivial"], event_kinds=kinds)
    missing = {"print", "exec", "csi", "esc", "osc", "hook", "put", "unhook"} - set(kinds)
    if missing:
        raise vlib.ToolError("vacuous state graph: callback kinds never expected: %s" % sorted(missing))


def _one_case(case):
    wd = vlib.workdir("one-case")
    p = os.path.join(wd, "c.ndjson")
    vlib.write_lines(p, [case])
    return p


def split_streams(lines):
    """indices (0-based) of reset lines"""
    return [i for i, l in enumerate(lines) if l.startswith('{"b":256')]


def validate_trace_file(chk, path, name, spec="Trace_VtParser", consts=None, max_rounds=4):
    """validate; on rejection record it, then continue with the streams after the rejected one"""
    lines = open(path).read().split("\n")
    lines = [l for l in lines if l]
    rejects = []
    cur = path
    offset = 0
    rounds = 0
    states = 0
    while True:
        ok, rej, res = vlib.tlc_trace(cur, spec, name, consts=consts)
        chk.add_tlc(res)
        states += res.distinct
        if ok:
            break
        at = rej["reject_at"] - 1 + offset  # 0-based index in lines
        resets = [i for i in split_streams(lines) if i <= at]
        start = resets[-1] if resets else 0
        stream = [json.loads(l) for l in lines[start + 1:at + 1]]
        rejects.append({"input": [e["b"] for e in stream], "at": len(stream) - 1, "observed": stream[-1]["e"]})
        rounds += 1
        nxt = [i for i in split_streams(lines) if i > at]
        if not nxt or rounds >= max_rounds:
            break
        offset = nxt[0]
        cur = path + ".rest"
        open(cur, "w").write("\n".join(lines[offset:]) + "\n")
    return rejects, len(lines), states


def check_traces(chk, vh, shards, streams, target, flavor="full", spec="Trace_VtParser", consts=None, tag="c02"):
    wd = vlib.workdir(tag + "-traces")
    jobs = []
    for s in range(shards):
        seed = chk.seed * 1000 + s
        path = os.path.join(wd, "t%d.ndjson" % s)
        out = vlib.run_harness(vh, ["vt-record", seed, streams, target, flavor, path]).stdout
        summ = json.loads(out.strip().split("\n")[-1])["summary"]
        jobs.append((path, seed, summ))

    def val(j):
        return validate_trace_file(chk, j[0], "%s-tr-%d" % (tag, j[1]), spec=spec, consts=consts)
    results = vlib.parallel(val, jobs, jobs=8)
    nbytes = 0
    for (path, seed, summ), (rejects, nlines, states) in zip(jobs, results):
        nbytes += summ["bytes"]
        chk.traces += summ["streams"]
        for rj in rejects:
            if len(chk.violations) < 2 and consts is None and len(rj["input"]) > 6:
                small = minimize_vt(vh, rj["input"])
                if len(small) < len(rj["input"]):
                    e2 = eval_expected([small], name=tag + "-exp2")[0]
                    got = json.loads(vlib.run_harness(vh, ["vt-replay", _one_case(e2)]).stdout.strip().split("\n")[0])
                    if "mismatch" in got:
                        m = got["mismatch"]
                        chk.violation("minimised: callbacks differ at byte %d of input %s: observed %s, spec expects %s"
                                      % (m["at"], m["input"], json.dumps(m["observed"])[:200], json.dumps(m["expected"])[:200]),
                                      {"kind": "vt-string", "input": m["input"], "at": m["at"], "expected": m["expected"], "observed": m["observed"], "minimised_from": len(rj["input"])})
            exp = eval_expected([rj["input"]], name=tag + "-exp", consts=consts)[0]["e"]
            chk.violation("recorded trace (seed %d) rejected by %s at byte %d of a stream of %d bytes: observed %s, spec expects %s"
                          % (seed, spec, rj["at"], len(rj["input"]), json.dumps(rj["observed"]), json.dumps(exp[rj["at"]])),
                          {"kind": "vt-string", "input": rj["input"], "at": rj["at"], "expected": exp[rj["at"]],
                           "observed": rj["observed"], "consts": consts})
    chk.evaluations += nbytes
    chk.nontrivial_count += sum(j[2]["streams"] for j in jobs)
    chk.part("B_traces", shards=shards, bytes=nbytes, streams=sum(j[2]["streams"] for j in jobs))
    first = open(jobs[0][0]).read().split("\n")[1:40]
    chk.sample({"trace_prefix": [json.loads(l) for l in first if l][:12]})
    return nbytes


def run(chk):
    vh = vlib.build_harness("vh")
    quick = chk.tier == "quick"
    chk.rule = ("A: every (state,byte) cell; every string of length N over the %s-byte class alphabet (non-trivial = contains a "
                "control, DEL or 8-bit byte). B: seeded grammar streams (non-trivial = every stream: all contain escape "
                "sequences), each also replayed after history++CAN/SUB" % "43")
    chk.assumptions = ["the TLA+ modules VtTable/Utf8/VtParser are the independent reading of Williams' parser + documented deviations",
                       "bounded: strings up to N over class representatives; streams are samples of the grammar"]
    # S
    wd = vlib.workdir("c02-s")
    cfg = mk_cfg("spec/mc/MC_VtLimits.cfg", os.path.join(wd, "lim.cfg"), {"Depth": 6 if quick else 8, "FullBytes": not quick})
    r = vlib.tlc_run("spec/mc/MC_VtLimits.tla", cfg, "c02-limits", workers=8, timeout=3000)
    if not r.ok:
        raise vlib.ToolError("specification-level check MC_VtLimits failed (%s):\n%s" % (r.violated, vlib.tlc_counterexample(r)))
    chk.add_tlc(r, "S_limits_bisim")
    cfg = mk_cfg("spec/mc/MC_VtCancel.cfg", os.path.join(wd, "can.cfg"), {"HistDepth": 4 if quick else 5, "LockDepth": 4 if quick else 5})
    r = vlib.tlc_run("spec/mc/MC_VtCancel.tla", cfg, "c02-cancel", workers=8, timeout=3000)
    if not r.ok:
        raise vlib.ToolError("specification-level check MC_VtCancel failed (%s):\n%s" % (r.violated, vlib.tlc_counterexample(r)))
    chk.add_tlc(r, "S_cancel_lockstep")
    # A
    check_table(chk, vh)
    if quick:
        check_enum(chk, vh, 3)
    else:
        check_enum(chk, vh, 3)
        firsts = [0, 7, 9, 10, 24, 27, 32, 48, 58, 59, 60, 64, 80, 88, 91, 93, 109, 127, 128, 144, 156, 194, 224, 240, 244]
        check_enum(chk, vh, 4, firsts=firsts)
    check_graph(chk, vh, 5 if quick else 6)
    # B
    if quick:
        check_traces(chk, vh, shards=8, streams=6, target=500)
    else:
        check_traces(chk, vh, shards=48, streams=12, target=1500)
    chk.exhaustive = False


def replay(obj):
    vh = vlib.build_harness("vh")
    if obj.get("kind") == "vt-table":
        out = vlib.run_harness(vh, ["table"]).stdout
        print("state_change(%s, %d): see `vh table`; spec expects %s" % (obj["state"], obj["byte"], obj["expected"]))
        for l in out.split("\n"):
            p = l.split()
            if len(p) == 4 and p[0] == obj["state"] and int(p[1]) == obj["byte"]:
                print("code: ", l)
        return 1
    exp = eval_expected([obj["input"]], consts=obj.get("consts"))[0]
    wd = vlib.workdir("replay")
    p = os.path.join(wd, "case.ndjson")
    vlib.write_lines(p, [exp])
    out = vlib.run_harness(vh, ["vt-replay", p]).stdout
    print(out)
    return 1 if '"mismatch"' in out else 0


def selftest():
    """binding self-test: a corrupted recorded event must be rejected at its line; a flipped expectation must be reported"""
    vh = vlib.build_harness("vh")
    wd = vlib.workdir("c02-self")
    path = os.path.join(wd, "t.ndjson")
    vlib.run_harness(vh, ["vt-record", 7, 2, 300, "full", path])
    ok, rej, _ = vlib.tlc_trace(path, "Trace_VtParser", "c02-self-a")
    if not ok:
        return False
    lines = open(path).read().split("\n")
    idx = next(i for i, l in enumerate(lines) if '"k":"print"' in l and i > 20)
    o = json.loads(lines[idx]); o["e"][0]["c"] += 1
    lines[idx] = json.dumps(o, separators=(",", ":"))
    open(path, "w").write("\n".join(lines))
    ok, rej, _ = vlib.tlc_trace(path, "Trace_VtParser", "c02-self-b")
    if ok or rej["reject_at"] != idx + 1:
        return False
    # a removed hook: drop the line of an ESC that opens a sequence - what follows is then no behaviour of the specification
    lines[idx] = json.dumps(json.loads(lines[idx]) | {"e": [{"c": json.loads(lines[idx])["e"][0]["c"] - 1, "k": "print"}]}, separators=(",", ":"))
    esc = next(i for i, l in enumerate(lines) if l.startswith('{"b":27,') and i > idx)
    del lines[esc]
    open(path, "w").write("\n".join(lines))
    ok, rej, _ = vlib.tlc_trace(path, "Trace_VtParser", "c02-self-c")
    if ok:
        return False
    exp = eval_expected([[27, 91, 49, 109]])[0]
    exp["e"][3][0]["b"] = 110
    p = os.path.join(wd, "case.ndjson")
    vlib.write_lines(p, [exp])
    out = vlib.run_harness(vh, ["vt-replay", p]).stdout
    return '"mismatch"' in out
