"""C04 - no panic, overflow or memory error on any untrusted input.

 What the specification contributes: TOTALITY (every operation of every module has a defined outcome for every input, so a
 panic is never a behaviour of the specification - every other check already records panics as data and rejects them) and
 the STATE INVARIANTS that make the crate's unsafe blocks sound (VtParser!LimitsOk: <= 16 OSC fields with ranges inside
 the buffer, <= 2 intermediates, <= 32 parameters, state is a table state; Strip: text pieces start and end on character
 boundaries), checked by TLC on the scaled model / product automaton.
 Exploration: seeded escape-rich, boundary-rich, arbitrary-byte and arbitrary-Unicode inputs through every entry point
 (parser, strip and styled-run adapters, strip stream, git / LS_COLORS parsers, lossy conversion with arbitrary palettes,
 render_svg, to_roff) in a build with debug assertions and overflow checks ON, each under catch_unwind; returned text pieces
 must be valid UTF-8 lying inside the input (pointer range); one event per input, validated by Trace_Total.
"""
import json, os, subprocess
import vlib
from props.c02 import mk_cfg


def run(chk):
    vh = vlib.build_harness("vh")
    from props import c15
    vd = c15.doc_bin()
    quick = chk.tier == "quick"
    chk.rule = ("seeded inputs of 8 kinds (grammar full/UTF-8, SGR-rich, random bytes, arbitrary Unicode, boundary-rich CSI/OSC, 30-40 huge parameters) "
                "x 12 entry points + 2 document converters; distinct = distinct input byte strings (all contain escapes, controls or non-ASCII)")
    chk.assumptions = ["harness built with debug-assertions and overflow-checks on (release profile of /verif/harness/Cargo.toml)",
                       "out-of-bounds reads that do not crash an ordinary build are looked for by running the same exploration in an AddressSanitizer build (nightly); Miri is not used (200 inputs take > 25 min)"]
    # S: soundness invariants on the specification
    wd = vlib.workdir("c04")
    cfg = mk_cfg("spec/mc/MC_VtLimits.cfg", os.path.join(wd, "lim.cfg"), {"Depth": 6 if quick else 8, "FullBytes": False})
    r = vlib.tlc_run("spec/mc/MC_VtLimits.tla", cfg, "c04-limits", workers=8, timeout=3000)
    if not r.ok:
        raise vlib.ToolError("MC_VtLimits failed (%s):\n%s" % (r.violated, vlib.tlc_counterexample(r)))
    chk.add_tlc(r, "S_parser_limits")
    cfg = mk_cfg("spec/mc/MC_StripProd.cfg", os.path.join(wd, "p.cfg"), {"Api": '"str"'})
    r = vlib.tlc_run("spec/mc/MC_StripProd.tla", cfg, "c04-prod", workers=4, timeout=3000)
    if not r.ok:
        raise vlib.ToolError("MC_StripProd(str) failed (%s)" % r.violated)
    chk.add_tlc(r, "S_text_pieces_on_character_boundaries")
    # S (thorough only): the Params bookkeeping at its REAL size (32) by Apalache: IndInv is inductive (all states, not only
    # reachable ones within a depth) and implies index safety of push/extend and of the iterator.  Runs beside the exploration.
    apa = None
    if not quick:
        import concurrent.futures
        pool = concurrent.futures.ThreadPoolExecutor(3)
        apa = [("Init=>IndInv", pool.submit(vlib.apalache_check, "spec/apalache/ParamsInd.tla", "p0", "Init", "IndInv", 0, 900)),
               ("IndInv=>Safe", pool.submit(vlib.apalache_check, "spec/apalache/ParamsInd.tla", "p1", "IndInit", "Safe", 0, 1800)),
               ("IndInv/\\Next=>IndInv'", pool.submit(vlib.apalache_check, "spec/apalache/ParamsInd.tla", "p2", "IndInit", "IndInv", 1, 5400))]
    shards = 8 if quick else 32
    per = 250 if quick else 4000
    jobs = []
    tot = {"inputs": 0, "calls": 0, "distinct": 0}
    for s in range(shards):
        p = os.path.join(wd, "t%d.ndjson" % s)
        out = vlib.run_harness(vh, ["total-run", chk.seed * 1000 + s, per, 200 if s % 2 else 700, p], timeout=600 if quick else 3600).stdout
        summ = json.loads(out.strip().split("\n")[-1])["summary"]
        for k in tot:
            tot[k] += summ.get(k, 0)
        jobs.append(p)
        if s % 2 == 0:
            p2 = os.path.join(wd, "d%d.ndjson" % s)
            rr = subprocess.run([vd, "total-run", str(chk.seed * 1000 + s), str(per // 2), "300", p2], stdout=subprocess.PIPE, stderr=subprocess.PIPE, text=True, timeout=7200)
            if rr.returncode != 0:
                raise vlib.ToolError("vh-doc total-run failed: " + rr.stderr[-1000:])
            summ = json.loads(rr.stdout.strip().split("\n")[-1])["summary"]
            tot["inputs"] += summ["inputs"]
            tot["calls"] += summ["calls"]
            tot["distinct"] += summ["inputs"]
            jobs.append(p2)

    def val(p):
        return p, vlib.tlc_trace(p, "Trace_Total", "c04-" + os.path.basename(p), timeout=6000)
    jobs2 = []
    for p, (ok, rej, res) in vlib.parallel(val, jobs, jobs=8):
        chk.add_tlc(res)
        if not ok:
            e = rej["event"]
            badapis = [a for a in e["apis"] if a[1] != "ok" or not a[2]]
            chk.violation("entry point(s) %s failed on an input of %d bytes starting %r (bookkeeping %s)" % (badapis, e["n"], bytes(e["in"]), e["dbg"]),
                          {"kind": "total-event", "event": e, "file": p})
    # the same exploration under AddressSanitizer (out-of-bounds reads in the unsafe blocks do not crash an ordinary build)
    asan = {"inputs": 0, "calls": 0}
    for pkg, args_of in (("vh", lambda s_: ["total-run", chk.seed * 1000 + 500 + s_, 400 if quick else 6000, 200 if s_ % 2 else 700]),
                         ("vh-doc", lambda s_: ["total-run", chk.seed * 1000 + 500 + s_, 150 if quick else 2000, 300])):
        ab = vlib.build_harness_asan(pkg, bin_name=pkg)
        if ab is None:
            chk.notes.append("no nightly toolchain with the AddressSanitizer runtime: %s not run under ASan" % pkg)
            continue
        for s_ in range(2 if quick else 8):
            p = os.path.join(wd, "asan-%s-%d.ndjson" % (pkg, s_))
            a = [str(x) for x in args_of(s_)] + [p]
            env = dict(os.environ); env["ASAN_OPTIONS"] = "detect_leaks=0:abort_on_error=0:halt_on_error=1"
            rr = subprocess.run([ab] + a, stdout=subprocess.PIPE, stderr=subprocess.PIPE, text=True, timeout=7200, env=env)
            if "AddressSanitizer" in rr.stderr:
                chk.violation("memory error reported by AddressSanitizer in `%s %s`: %s" % (pkg, " ".join(a[:4]), rr.stderr[rr.stderr.index("AddressSanitizer"):][:600].replace("\n", " | ")),
                              {"kind": "asan", "pkg": pkg, "args": a[:4], "report": rr.stderr[-4000:]})
                continue
            if rr.returncode != 0:
                raise vlib.ToolError("%s under AddressSanitizer failed: %s" % (pkg, rr.stderr[-800:]))
            summ = json.loads(rr.stdout.strip().split("\n")[-1])["summary"]
            asan["inputs"] += summ["inputs"]; asan["calls"] += summ["calls"]
            jobs2.append(p)
    for p, (ok, rej, res) in vlib.parallel(val, jobs2, jobs=8):
        chk.add_tlc(res)
        if not ok:
            e = rej["event"]
            badapis = [a for a in e["apis"] if a[1] != "ok" or not a[2]]
            chk.violation("(ASan build) entry point(s) %s failed on an input of %d bytes starting %r" % (badapis, e["n"], bytes(e["in"])),
                          {"kind": "total-event", "event": e, "file": p})
    if asan["inputs"]:
        chk.part("exploration_under_address_sanitizer", inputs=asan["inputs"], calls=asan["calls"])
    chk.evaluations += tot["calls"] + asan["calls"]
    chk.nontrivial_count += tot["distinct"]
    chk.traces += tot["inputs"]
    chk.part("exploration", inputs=tot["inputs"], calls=tot["calls"], distinct_inputs=tot["distinct"])
    chk.sample({"event": json.loads(open(jobs[0]).readline())})
    if apa:
        res = {}
        for what, fut in apa:
            st, dt, tail = fut.result()
            res[what] = "%s in %ds" % (st, dt)
            if st == "error":
                raise vlib.ToolError("Apalache refuted %s on spec/apalache/ParamsInd.tla (a specification error, not a code violation):\n%s" % (what, tail))
            if st == "tool":
                raise vlib.ToolError("apalache-mc failed on %s:\n%s" % (what, tail))
        # a timeout leaves the obligation undecided; it is reported in the evidence, the bounded TLC invariants above still stand
        chk.part("S_params_inductive_invariant_apalache", size=32, **{k.replace("=>", " implies ").replace("/\\", " and ").replace("'", " primed"): v for k, v in res.items()})
    chk.exhaustive = False


def replay(obj):
    if obj.get("kind") == "asan":
        print(obj["report"])
        print("re-run: the ASan build of %s with arguments %s <out>" % (obj["pkg"], obj["args"]))
        return 1
    print(json.dumps(obj["event"])[:2000])
    print("re-run the check with the same VERIF_SEED to regenerate the full input (events keep the first 64 bytes)")
    return 1


def selftest():
    wd = vlib.workdir("c04-self")
    p = os.path.join(wd, "e.ndjson")
    good = {"n": 1, "in": [1], "apis": [["x", "ok", True]], "dbg": {"inter": 0, "osc": -1, "params": -1}}
    bad = {"n": 1, "in": [1], "apis": [["x", "panic", False]], "dbg": {"inter": 0, "osc": -1, "params": -1}}
    vlib.write_lines(p, [good, bad])
    ok, rej, _ = vlib.tlc_trace(p, "Trace_Total", "c04-self")
    return (not ok) and rej["reject_at"] == 2
