"""C05 - rendered styles are pure SGR and round-trip through SGR interpretation.

 S  MC_SgrRoundTrip: the SGR model is self-consistent on all 4096 effect sets x a colour lattice
    (render-by-spec then interpret = identity; combined = separate).
 B  the harness renders every style of the quantifier through every public rendering path and the
    format-flag grid; every rendering is judged by Trace_StyleRender: bytes -> VtParser -> only `CSI..m`
    dispatches -> strict SGR interpretation from the default rendition = the style; Strip keeps nothing;
    reset form empty iff plain and returns to default; all paths/flags gave one byte string.
"""
import json, os
import vlib
from props.c02 import mk_cfg


def run(chk):
    vh = vlib.build_harness("vh")
    quick = chk.tier == "quick"
    chk.rule = ("all 4096 effect sets; 16 palette + 256 indexed colours in each of 3 slots; every value (quick: 19 boundary strata) of each RGB "
                "component in each slot; seeded full combinations; every event = one value rendered through all public paths and a 9-point "
                "format-flag grid (non-trivial = every non-plain value)")
    chk.assumptions = ["underline kinds read as independent flags when judging rendered output (a Style can hold several)",
                       "semantic comparison: leading zeros / one or several sequences are equivalent"]
    wd = vlib.workdir("c05")
    cfg = mk_cfg("spec/mc/MC_SgrRoundTrip.cfg", os.path.join(wd, "rt.cfg"), {"Big": not quick})
    import threading
    res = {}

    def mc():
        res["r"] = vlib.tlc_run("spec/mc/MC_SgrRoundTrip.tla", cfg, "c05-rt", workers=4 if quick else 8, timeout=6000, xmx="8g")
    th = threading.Thread(target=mc)
    th.start()
    shards = 8 if quick else 16
    prefix = os.path.join(wd, "sty")
    out = vlib.run_harness(vh, ["style-record", chk.seed, 0 if quick else 1, shards, prefix]).stdout
    summ = json.loads(out.strip().split("\n")[-1])["summary"]

    def val(k):
        p = "%s-%d.ndjson" % (prefix, k)
        ok, rej, r = vlib.tlc_trace(p, "Trace_StyleRender", "c05-tr-%d" % k, timeout=3000)
        return p, ok, rej, r
    for p, ok, rej, r in vlib.parallel(val, range(shards), jobs=8):
        chk.add_tlc(r)
        if not ok:
            e = rej["event"]
            chk.violation("rendering rejected by Trace_StyleRender: %s" % json.dumps(e)[:400], {"kind": "style-event", "event": e})
    th.join()
    r = res["r"]
    if not r.ok:
        raise vlib.ToolError("MC_SgrRoundTrip failed (%s):\n%s" % (r.violated, vlib.tlc_counterexample(r)))
    chk.add_tlc(r, "S_roundtrip")
    chk.traces += summ["events"]
    chk.evaluations += summ["events"]
    chk.nontrivial_count += summ["nontrivial"]
    chk.part("B_renderings", events=summ["events"], shards=shards, exhaustive_effect_sets=True, exhaustive_indexed_colours=True,
             exhaustive_rgb_components=not quick)
    chk.sample({"event": json.loads(open(prefix + "-0.ndjson").read().split("\n")[2])})
    chk.exhaustive = False


def replay(obj):
    wd = vlib.workdir("replay")
    p = os.path.join(wd, "e.ndjson")
    vlib.write_lines(p, [obj["event"]])
    print(json.dumps(obj["event"]))
    ok, rej, _ = vlib.tlc_trace(p, "Trace_StyleRender", "replay-c05")
    print("recorded rendering:", "accepted" if ok else "rejected")
    print("(re-render against the working tree: python3 tools/verif.py check C05)")
    return 0 if ok else 1


def selftest():
    wd = vlib.workdir("c05-self")
    p = os.path.join(wd, "e.ndjson")
    good = {"k": "style", "st": {"fg": ["ansi", 1], "bg": ["none"], "ul": ["none"], "eff": ["BOLD"]}, "alt": [[27, 91, 49, 109, 27, 91, 51, 49, 109]], "reset": [[27, 91, 48, 109]]}
    bad = json.loads(json.dumps(good)); bad["alt"][0][6] = 50  # 31 -> 32: green instead of red
    vlib.write_lines(p, [good])
    ok, _, _ = vlib.tlc_trace(p, "Trace_StyleRender", "c05-self-a")
    vlib.write_lines(p, [good, bad])
    ok2, rej, _ = vlib.tlc_trace(p, "Trace_StyleRender", "c05-self-b")
    return ok and (not ok2) and rej["reject_at"] == 2
