"""C10 - lossy colour conversion is total, exact on exact matches and nearest otherwise.

 S  MC_Lossy: structural facts of the specification (every fixed colour of the 256 palette is its own nearest candidate,
    no duplicates among 16..255, Dist is a symmetric premetric).
 B  every conversion call is an event validated by Trace_Lossy (IsNearest = minimal red-mean distance, lowest index on
    ties): all 256 indices and all 16 palette colours for the small conversions x {VGA, WIN10, duplicate, extreme, seeded
    random palettes} exhaustively; every exact table/palette entry; and RGB samples AIMED by a sweep - all 2^24 values
    (thorough) or a 2^18 lattice (quick) are compared with a transliteration of the Nearest operator and every
    disagreement, near-tie and a stratified sample are forwarded to TLC, which alone decides.
"""
import json, os, subprocess
import vlib


def run(chk):
    vh = vlib.build_harness("vh")
    quick = chk.tier == "quick"
    chk.rule = ("small conversions exhaustive per palette; RGB: sweep of %s values x palettes with a transliteration, forwarding disagreements "
                "(capped), near-ties (capped) and every n-th value to TLC; non-trivial = forwarded rgb->palette events" % ("2^18" if quick else "2^24"))
    chk.assumptions = ["'red-mean weighted distance' = compuphase.com/cmetric.htm without the square root (monotone), scaled by 512",
                       "the sweep's transliteration only aims the sample; a VIOLATION needs TLC's rejection"]
    r = vlib.tlc_run("spec/mc/MC_Lossy.tla", "spec/mc/MC_Lossy.cfg", "c10-mc", workers=4, timeout=1200)
    if not r.ok:
        raise vlib.ToolError("MC_Lossy failed (%s):\n%s" % (r.violated, vlib.tlc_counterexample(r)))
    chk.add_tlc(r, "S_structure")
    wd = vlib.workdir("c10")
    shards = 8 if quick else 16
    prefix = os.path.join(wd, "lo")
    # totality includes returning at all: the recorder normally needs seconds (quick) / a few minutes (thorough)
    limit = 240 if quick else 2400
    try:
        out = vlib.run_harness(vh, ["lossy-record", chk.seed, 0 if quick else 1, shards, prefix], timeout=limit, raise_timeout=True).stdout
    except subprocess.TimeoutExpired:
        last = ""
        try:
            last = [l for l in open(prefix + "-0.ndjson").read().split("\n") if l.strip()][-1][:300]
        except (OSError, IndexError):
            pass
        chk.violation("a lossy conversion did not return: the recorder made no progress for %d s (last recorded conversion: %s)" % (limit, last),
                      {"kind": "lossy-hang", "limit_s": limit, "last_recorded": last})
        chk.exhaustive = False
        return
    summ = json.loads(out.strip().split("\n")[-1])["summary"]

    def val(k):
        return vlib.tlc_trace("%s-%d.ndjson" % (prefix, k), "Trace_Lossy", "c10-%d" % k, timeout=20000)
    for ok, rej, res in vlib.parallel(val, range(shards), jobs=8):
        chk.add_tlc(res)
        if not ok:
            e = rej["event"]
            chk.violation("conversion rejected by Trace_Lossy: %s" % json.dumps(e)[:400], {"kind": "lossy-event", "event": e})
    chk.traces += summ["events"]
    chk.evaluations += summ["swept"] * len(summ["palettes"]) + summ["events"]
    chk.nontrivial_count += summ["events"]
    chk.part("B_events", events=summ["events"], swept=summ["swept"], palettes=summ["palettes"],
             sweep_disagreements_with_transliteration=summ["sweep_disagreements"], sweep_near_ties=summ["sweep_ties"])
    chk.sample({"event": json.loads(open(prefix + "-0.ndjson").read().split("\n")[-2])})
    chk.exhaustive = False


def replay(obj):
    if obj.get("kind") == "lossy-hang":
        print(json.dumps(obj))
        print("re-run: python3 tools/verif.py check C10 (the recorder hangs in the conversion that follows the last recorded one)")
        return 1
    wd = vlib.workdir("replay")
    p = os.path.join(wd, "e.ndjson")
    vlib.write_lines(p, [obj["event"]])
    ok, rej, _ = vlib.tlc_trace(p, "Trace_Lossy", "replay-c10")
    print(json.dumps(obj["event"]))
    print("recorded conversion:", "accepted" if ok else "rejected")
    return 0 if ok else 1


def selftest():
    wd = vlib.workdir("c10-self")
    p = os.path.join(wd, "e.ndjson")
    vlib.write_lines(p, [{"op": "rgb_to_xterm", "c": [238, 238, 238], "r": 255}, {"op": "rgb_to_xterm", "c": [238, 238, 238], "r": 254}])
    ok, rej, _ = vlib.tlc_trace(p, "Trace_Lossy", "c10-self")
    return (not ok) and rej["reject_at"] == 2
