"""C14 - SVG rendering is well-formed, text-preserving and style-faithful.

 B  seeded SGR-rich texts (generator of C07 + XML-special characters, wide and zero-width characters, CRLF) x {VGA, WIN10}
    x default colours x background on/off are rendered by anstyle_svg::Term::render_svg; each document is parsed by expat
    (tools/svg2json.py - observation only; expat alone decides well-formedness) into rows of spans with the MEANING of
    their classes according to the document's own style sheet; every document is validated by Trace_Svg against the
    extractor specification (lines, per-character rendition incl. invert against the configured defaults, palette RGB
    values via Lossy, background rows, height).
"""
import json, os, subprocess, sys
import vlib
sys.path.insert(0, os.path.join(vlib.VERIF, "tools"))
import svg2json

FLAGS = {"AcceptIntermediatesIgnored": False}


def to_event(rec):
    d = svg2json.dump(rec["svg"])
    rows = []
    by_y = {}
    order = []
    for line in d["lines"]:
        if line["y"] not in by_y:
            by_y[line["y"]] = []
            order.append(line["y"])
        by_y[line["y"]].append(line)

    def span(s):
        return {"text": s["text"], "fill": s["fill"] or [], "ulcolor": s["ulcolor"] or [], "eff": s["eff"], "undefined": s["undefined"]}
    for y in order:
        grp = by_y[y]
        fg = grp[-1]
        bg = grp[0] if len(grp) == 2 else None
        stray = list(fg["direct"]) + (list(bg["direct"]) if bg else []) + ([1] if len(grp) > 2 else [])
        rows.append({"fg": [span(s) for s in fg["spans"]],
                     "bg": {"present": bg is not None, "spans": [span(s) for s in bg["spans"]] if bg else []},
                     "stray": stray})
    dom = {"wellformed": d["wellformed"], "height": d["height"] if d["height"] is not None else -1, "rows": rows,
           "default_fill": d.get("default_fill") or [], "default_bg": d.get("default_bg") or [], "has_rect": d["has_rect"]}
    return {"in": rec["in"], "cfg": rec["cfg"], "dom": dom}


def run(chk):
    from props import c15
    vd = c15.doc_bin()
    quick = chk.tier == "quick"
    chk.rule = "seeded SGR-rich XML-representable texts x palette x default colours x background (non-trivial: every document contains SGR and XML-special text)"
    chk.assumptions = ["DEL (U+007F) is not generated: the statement does not say whether it is visible text (the extractor prints it, the renderer draws a block for it)",
                       "well-formedness is expat's verdict; the class->meaning mapping is read from the document's own <style> sheet",
                       "lenient SGR reading as in C07; lone CR and U+000C/U+FFFE/U+FFFF are outside the domain",
                       "background rows are compared as sets of colours per line (block widths depend on Unicode width tables)"]
    wd = vlib.workdir("c14")
    shards = 8 if quick else 16
    per = 50 if quick else 1250
    jobs = []
    for s in range(shards):
        raw = os.path.join(wd, "raw-%d.ndjson" % s)
        r = subprocess.run([vd, "svg-record", str(chk.seed * 1000 + s), str(per), str(160 if quick else 400), raw], stdout=subprocess.PIPE, stderr=subprocess.PIPE, text=True, timeout=3600)
        if r.returncode != 0:
            raise vlib.ToolError("vh-doc svg-record failed: " + r.stderr[-1500:])
        ev = os.path.join(wd, "ev-%d.ndjson" % s)
        recs = [json.loads(l) for l in open(raw) if l.strip()]
        vlib.write_lines(ev, [to_event(x) for x in recs])
        jobs.append((ev, recs))

    def val(j):
        return vlib.tlc_trace(j[0], "Trace_Svg", "c14-" + os.path.basename(j[0]), consts=FLAGS, timeout=20000, xmx="4g")
    for (ev, recs), (ok, rej, res) in zip(jobs, vlib.parallel(val, jobs, jobs=8)):
        chk.add_tlc(res)
        if not ok:
            rec = recs[rej["reject_at"] - 1]
            chk.violation("render_svg(%r) with %s - document rejected by Trace_Svg" % (bytes(rec["in"])[:200], {k: v for k, v in rec["cfg"].items() if k != "pal"}),
                          {"kind": "svg-doc", "in": rec["in"], "cfg": rec["cfg"], "svg": rec["svg"]})
    n = shards * per
    chk.traces += n
    chk.evaluations += n
    chk.nontrivial_count += n
    chk.part("B_documents", documents=n)
    ev0 = json.loads(open(jobs[0][0]).readline())
    chk.sample({"input": ev0["in"][:60], "cfg": {k: v for k, v in ev0["cfg"].items() if k != "pal"}, "first_row": ev0["dom"]["rows"][:1]})
    chk.exhaustive = False


def replay(obj):
    wd = vlib.workdir("replay")
    p = os.path.join(wd, "e.ndjson")
    print("input:", bytes(obj["in"]))
    print(obj["svg"][:1500])
    vlib.write_lines(p, [to_event(obj)])
    ok, rej, _ = vlib.tlc_trace(p, "Trace_Svg", "replay-c14", consts=FLAGS)
    print("recorded document:", "accepted" if ok else "rejected")
    return 0 if ok else 1


def selftest():
    from props import c15
    vd = c15.doc_bin()
    wd = vlib.workdir("c14-self")
    raw = os.path.join(wd, "raw.ndjson")
    subprocess.run([vd, "svg-record", "5", "4", "120", raw], stdout=subprocess.PIPE, timeout=120)
    recs = [json.loads(l) for l in open(raw) if l.strip()]
    evs = [to_event(x) for x in recs]
    p = os.path.join(wd, "e.ndjson")
    vlib.write_lines(p, evs)
    ok, _, _ = vlib.tlc_trace(p, "Trace_Svg", "c14-self-a", consts=FLAGS)
    if not ok:
        return False
    bad = json.loads(json.dumps(evs[0]))
    bad["dom"]["height"] += 18
    vlib.write_lines(p, [bad])
    ok2, _, _ = vlib.tlc_trace(p, "Trace_Svg", "c14-self-b", consts=FLAGS)
    return not ok2
