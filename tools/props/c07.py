"""C07 - styled-run extraction follows standard SGR semantics (also the extractor half of C03).

 S  MC_SgrEnum's invariant "combined = separate" on the specification; MC_SgrRoundTrip (Combined, LenientCoversStrict).
 A  MC_SgrEnum: every sequence of up to G attribute groups over the representative code set, in the combined and the
    separate spelling, followed by a marker character, with the set of styles the lenient SGR reading allows;
    replayed through WinconBytes for EVERY chunking of the input (2^(n-1)); merged runs must be chunk-independent.
 B  grammar texts interleaving UTF-8 text, SGR up to 32 parameters, other CSI/OSC/ESC, with seeded chunkings;
    every extract_next call validated by Trace_Wincon (parser spec driving Sgr!Apply; candidate-set judge).
"""
import json, os
import vlib
from props.c02 import mk_cfg

FLAGS = {"AcceptIntermediatesIgnored": False}


def enum(chk, vh, groups, full, upto):
    wd = vlib.workdir(chk.prop + "-sgrenum")
    cfg = mk_cfg("spec/mc/MC_SgrEnum.cfg", os.path.join(wd, "e.cfg"), {"Groups": groups, "UseFull": full})
    path = os.path.join(wd, "cases.ndjson")
    n = [0]
    with open(path, "w") as f:
        def sink(o):
            f.write(json.dumps(o, separators=(",", ":")) + "\n")
            n[0] += 1
            if n[0] == 500:
                chk.sample({"sgr_case": o})
        r = vlib.tlc_run("spec/mc/MC_SgrEnum.tla", cfg, chk.prop + "-sgrenum", workers=8, payload_sink=sink, timeout=6000, xmx="8g")
    if not r.ok:
        raise vlib.ToolError("MC_SgrEnum failed (%s): combined and separate spellings differ on the specification?\n%s" % (r.violated, vlib.tlc_counterexample(r)))
    chk.add_tlc(r, "A_sgr_enum_g%d_%s" % (groups, "full" if full else "small"))
    out = vlib.run_harness(vh, ["wincon-replay", path, upto], timeout=7200).stdout.strip().split("\n")
    for l in out:
        o = json.loads(l)
        if "mismatch" in o:
            m = o["mismatch"]
            chk.violation("WinconBytes on %s (chunks %s): observed %s; specification allows styles %s / text %s"
                          % (bytes(m["input"]), m["chunks"], json.dumps(m["observed"])[:300], json.dumps(m["chars"])[:300], ""),
                          {"kind": "wincon-case", "case": m})
        else:
            s = o["summary"]
            chk.evaluations += s["runs"]
            chk.nontrivial_count += s["cases"]
            chk.traces += s["cases"]
            chk.part("A_sgr_enum_g%d_%s" % (groups, "full" if full else "small"), sequences=s["cases"], chunked_runs=s["runs"], all_chunkings_up_to=upto, exhaustive=True)
            if s["cases"] == 0:
                raise vlib.ToolError("empty SGR enumeration")


def traces(chk, vh, shards, streams, target):
    wd = vlib.workdir(chk.prop + "-wtraces")
    jobs = []
    for s in range(shards):
        seed = chk.seed * 1000 + s
        p = os.path.join(wd, "w%d.ndjson" % s)
        out = vlib.run_harness(vh, ["wincon-record", seed, streams, target, p]).stdout
        jobs.append((p, seed, json.loads(out.strip().split("\n")[-1])["summary"]))

    def val(j):
        ok, rej, res = vlib.tlc_trace(j[0], "Trace_Wincon", "%s-w-%d" % (chk.prop, j[1]), consts=FLAGS, timeout=3000)
        return j, ok, rej, res
    calls = 0
    for (p, seed, summ), ok, rej, res in vlib.parallel(val, jobs, jobs=8):
        chk.add_tlc(res)
        calls += summ["calls"]
        chk.traces += summ["streams"]
        chk.nontrivial_count += summ["streams"]
        if not ok:
            lines = open(p).read().split("\n")
            at = rej["reject_at"] - 1
            start = at
            while start > 0 and json.loads(lines[start])["new"] != 1:
                start -= 1
            evs = [json.loads(l) for l in lines[start:at + 1]]
            tail = b"".join(bytes(e["in"]) for e in evs)[-120:]
            chk.violation("recorded extractor trace (seed %d) rejected by Trace_Wincon at call %d: input so far ...%r, runs of the call %s"
                          % (seed, rej["reject_at"], tail, json.dumps(evs[-1]["runs"])[:400]), {"kind": "wincon-trace", "events": evs})
    chk.evaluations += calls
    chk.part("B_traces_extractor", shards=shards, calls=calls, bytes=sum(j[2]["bytes"] for j in jobs))
    chk.sample({"extract_next_event": json.loads(open(jobs[0][0]).readline())})


def chunk_part(chk, vh, quick):
    """C03, extractor half: every chunking of the enumerated SGR inputs, seeded chunkings of long texts"""
    enum(chk, vh, 2, False, 12)
    traces(chk, vh, 4 if quick else 24, 10, 300 if quick else 1200)


def run(chk):
    vh = vlib.build_harness("vh")
    quick = chk.tier == "quick"
    chk.rule = ("A: all sequences of <= G groups over a 44-spelling representative set (single codes incl. empty/leading zeros/unknown, 4:n, "
                "38/48/58 in ';' and ':' spellings, 256 and RGB) x combined/separate x every chunking; B: grammar texts x seeded chunkings "
                "(every case contains an SGR sequence)")
    chk.assumptions = ["codes the statement is silent about (5 6 22-29 59) may have their standard effect or none",
                       "selecting an underline kind switches it on and may replace any previously selected kinds; 4:0 and 0 clear all",
                       "DEL is not counted as text"]
    wd = vlib.workdir("c07-s")
    r = vlib.tlc_run("spec/mc/MC_SgrRoundTrip.tla", mk_cfg("spec/mc/MC_SgrRoundTrip.cfg", os.path.join(wd, "rt.cfg"), {"Big": False}), "c07-rt", workers=8, timeout=3000)
    if not r.ok:
        raise vlib.ToolError("MC_SgrRoundTrip failed (%s)" % r.violated)
    chk.add_tlc(r, "S_combined_equals_separate")
    enum(chk, vh, 2, True, 10 if quick else 14)
    enum(chk, vh, 3, False, 10 if quick else 16)
    if not quick:
        enum(chk, vh, 3, True, 8)
    traces(chk, vh, 8 if quick else 48, 12 if quick else 24, 300 if quick else 1500)
    chk.exhaustive = False


def replay(obj):
    vh = vlib.build_harness("vh")
    wd = vlib.workdir("replay")
    if obj["kind"] == "wincon-case":
        m = obj["case"]
        p = os.path.join(wd, "c.ndjson")
        vlib.write_lines(p, [{"i": m["input"], "chars": m["chars"]}])
        out = vlib.run_harness(vh, ["wincon-replay", p, 16]).stdout
        print(out)
        return 1 if '"mismatch"' in out else 0
    p = os.path.join(wd, "t.ndjson")
    for e in obj["events"]:
        print(json.dumps(e)[:400])
    vlib.write_lines(p, obj["events"])
    ok, rej, _ = vlib.tlc_trace(p, "Trace_Wincon", "replay-c07", consts=FLAGS)
    print("recorded calls:", "accepted" if ok else "rejected at call %d" % rej["reject_at"])
    return 0 if ok else 1


def selftest():
    vh = vlib.build_harness("vh")
    wd = vlib.workdir("c07-self")
    p = os.path.join(wd, "t.ndjson")
    vlib.run_harness(vh, ["wincon-record", 2, 6, 200, p])
    ok, _, _ = vlib.tlc_trace(p, "Trace_Wincon", "c07-self-a", consts=FLAGS)
    if not ok:
        return False
    lines = open(p).read().split("\n")
    idx = next(i for i, l in enumerate(lines) if '"eff":[]' in l and '"runs":[[' in l and i > 10)
    o = json.loads(lines[idx]); o["runs"][0][0]["eff"] = ["BOLD"] if not o["runs"][0][0]["eff"] else []
    lines[idx] = json.dumps(o, separators=(",", ":"))
    open(p, "w").write("\n".join(lines))
    ok, rej, _ = vlib.tlc_trace(p, "Trace_Wincon", "c07-self-b", consts=FLAGS)
    if ok or rej["reject_at"] != idx + 1:
        return False
    c = os.path.join(wd, "c.ndjson")
    vlib.write_lines(c, [{"i": [27, 91, 49, 109, 88], "chars": [{"c": 88, "allowed": [{"fg": ["none"], "bg": ["none"], "ul": ["none"], "eff": ["ITALIC"]}]}]}])
    return '"mismatch"' in vlib.run_harness(vh, ["wincon-replay", c, 8]).stdout
