def chunk_part(chk, vh, quick):
    pass
