"""C06 - the strip stream keeps the Write contract under short writes and errors.

 S  MC_StripStream: all inputs of length L x all call cuts x all fault placements (short writes 0..3,
    Interrupted, WouldBlock, Other) up to a fault budget: the ideal algorithm keeps `delivered =
    visible(consumed)`; each deviation of the code (D_ReplayTail = F4, multi-piece/D_ErrAdvance = F5)
    must give a counterexample.
 A  every behaviour TLC explored is emitted as a script and replayed against a scripted inner writer
    through write, write_vectored, write_all and write_fmt; the recorded calls are judged by
    Trace_StripStream (observational layer I1-I4), not by equality with one algorithm.
 B  seeded long grammar inputs x random fault scripts, same validation.
"""
import json, os
import vlib
from props.c02 import mk_cfg

FLAGS_OFF = {"AcceptCtlLeak": False, "AcceptErrAdvance": False}


def spec_level(chk, quick):
    wd = vlib.workdir("c06-s")
    L, F = (4, 2) if quick else (5, 3)
    jobs = [("ideal", {"L": L, "MaxFaults": F}, None),
            ("D_ReplayTail", {"L": 3, "MaxFaults": 2, "D_ReplayTail": True}, "Consistent"),
            ("MultiPiece", {"L": 3, "MaxFaults": 2, "OnePiece": False}, "Consistent"),
            ("D_ErrAdvance", {"L": 3, "MaxFaults": 2, "OnePiece": False, "D_ErrAdvance": True}, "Consistent")]

    def one(j):
        name, flags, expect = j
        cfg = mk_cfg("spec/mc/MC_StripStream.cfg", os.path.join(wd, name + ".cfg"), flags)
        return j, vlib.tlc_run("spec/mc/MC_StripStream.tla", cfg, "c06-" + name, workers=6 if name == "ideal" else 2, timeout=3000)
    for (name, flags, expect), r in vlib.parallel(one, jobs, jobs=4):
        if expect is None:
            if not r.ok:
                raise vlib.ToolError("ideal StripStream algorithm violates Consistent (%s):\n%s" % (r.violated, vlib.tlc_counterexample(r)))
            chk.add_tlc(r, "S_ideal_L%d_F%d" % (L, F))
        else:
            if r.violated != expect:
                raise vlib.ToolError("self-test failed: %s produced no counterexample" % name)
            chk.add_tlc(r)
    chk.part("S_deviations_have_counterexamples", deviations=["D_ReplayTail", "MultiPiece", "D_ErrAdvance"])
    # liveness of the design under weak fairness: the protocol-following caller finishes (temporal property, no constraint)
    cfg = mk_cfg("spec/mc/MC_StripStreamLive.cfg", os.path.join(wd, "live.cfg"), {"L": 3 if quick else 4, "MaxFaults": 2 if quick else 3})
    r = vlib.tlc_run("spec/mc/MC_StripStream.tla", cfg, "c06-live", workers=4, timeout=3000)
    if not r.ok:
        raise vlib.ToolError("ideal StripStream algorithm does not terminate under fairness (%s):\n%s" % (r.violated, vlib.tlc_counterexample(r)))
    chk.add_tlc(r, "S_ideal_termination_under_fairness")


def active_flags(chk, vh):
    """Replay the canonical witness of every open finding; a finding whose witness is still rejected by the
    strict specification is reported (KNOWN-FINDING) and tolerated by the validators of this run."""
    if hasattr(chk, "_c06_flags"):
        return chk._c06_flags
    wd = vlib.workdir(chk.prop + "-witness")
    flags = dict(FLAGS_OFF)
    for f in chk.findings.open_for(chk.prop):
        w = f.get("witness", {})
        if f["id"] == "F5":
            sp = os.path.join(wd, "w.ndjson")
            tp = os.path.join(wd, "wt.ndjson")
            vlib.write_lines(sp, [{"i": w["input"], "calls": [{"c": len(w["input"]), "rs": w["script"]}]}])
            vlib.run_harness(vh, ["stream-replay", sp, "write", tp])
            ok, rej, res = vlib.tlc_trace(tp, "Trace_StripStream", chk.prop + "-w5", consts=FLAGS_OFF)
            chk.add_tlc(res)
            if not ok:
                flags["AcceptErrAdvance"] = True
                chk.known_finding("F5", f["what"][:200], {"input": w["input"], "script": w["script"], "rejected_call": rej["event"]})
        elif f["id"] == "F3":
            sp = os.path.join(wd, "w3.ndjson")
            tp = os.path.join(wd, "wt3.ndjson")
            vlib.write_lines(sp, [{"i": w["input"], "calls": [{"c": len(w["input"]), "rs": ["all"]}]}])
            vlib.run_harness(vh, ["stream-replay", sp, "write_all", tp])
            ok, rej, res = vlib.tlc_trace(tp, "Trace_StripStream", chk.prop + "-w3", consts=FLAGS_OFF)
            chk.add_tlc(res)
            if not ok:
                flags["AcceptCtlLeak"] = True
                chk.known_finding("F3", f["what"][:200], {"input": w["input"], "rejected_call": rej["event"]})
    chk._c06_flags = flags
    return flags


def validate(chk, vh, files, label, spec="Trace_StripStream"):
    """every shard is validated with the open findings that still manifest tolerated"""
    flags = active_flags(chk, vh)

    def val(p):
        ok, rej, res = vlib.tlc_trace(p, spec, chk.prop + "-l-" + os.path.basename(p), consts=flags)
        return p, ok, rej, res
    for p, ok, rej, res in vlib.parallel(val, files, jobs=8):
        chk.add_tlc(res)
        if ok:
            continue
        lines = open(p).read().split("\n")
        at = rej["reject_at"] - 1
        start = at
        def starts(o):
            return o.get("new") == 1 or o.get("op") == "new"
        while start > 0 and not starts(json.loads(lines[start])):
            start -= 1
        evs = [json.loads(l) for l in lines[start:at + 1]]
        chk.violation("%s: call %d rejected by %s: op=%s buf=%s inner=%s ret=%s"
                      % (label, rej["reject_at"], spec, evs[-1]["op"], evs[-1].get("buf"), evs[-1].get("inner"), evs[-1].get("ret")),
                      {"kind": "stream-trace", "events": evs, "flags": flags, "spec": spec})


def replay_scripts(chk, vh, L, F, ops, shards=8):
    wd = vlib.workdir("c06-a")
    cfg = mk_cfg("spec/mc/MC_StripStream.cfg", os.path.join(wd, "e.cfg"), {"L": L, "MaxFaults": F, "Emit": True})
    files = [open(os.path.join(wd, "scripts-%d.ndjson" % i), "w") for i in range(shards)]
    n = [0]
    sample = []

    def sink(o):
        files[n[0] % shards].write(json.dumps(o, separators=(",", ":")) + "\n")
        n[0] += 1
        if len(sample) < 2 and len(o["calls"]) >= 2:
            sample.append(o)
        if any(r != "all" for c in o["calls"] for r in c["rs"]):
            chk.nontrivial_count += 1
    r = vlib.tlc_run("spec/mc/MC_StripStream.tla", cfg, "c06-emit", workers=8, payload_sink=sink, timeout=3000)
    for f in files:
        f.close()
    if not r.ok:
        raise vlib.ToolError("MC_StripStream (emit) failed: " + r.raw_tail[-2000:])
    chk.add_tlc(r, "A_scripts_L%d_F%d" % (L, F))
    traces = []
    events = 0
    for i in range(shards):
        sp = os.path.join(wd, "scripts-%d.ndjson" % i)
        tp = os.path.join(wd, "trace-%d.ndjson" % i)
        out = vlib.run_harness(vh, ["stream-replay", sp, ops, tp]).stdout
        events += json.loads(out.strip().split("\n")[-1])["summary"]["events"]
        traces.append(tp)
    chk.traces += n[0] * len(ops.split(","))
    chk.evaluations += events
    chk.part("A_scripts_L%d_F%d" % (L, F), scripts=n[0], ops=ops, calls_validated=events, exhaustive=True)
    for s in sample:
        chk.sample({"script": s})
    validate(chk, vh, traces, "TLC-generated script (L=%d, faults<=%d)" % (L, F))


def random_runs(chk, vh, shards, runs, target, max_profile=2):
    wd = vlib.workdir("c06-b")
    traces = []
    events = 0
    for s in range(shards):
        tp = os.path.join(wd, "rec-%d.ndjson" % s)
        out = vlib.run_harness(vh, ["stream-record", chk.seed * 1000 + s, runs, target, tp, max_profile]).stdout
        summ = json.loads(out.strip().split("\n")[-1])["summary"]
        events += summ["events"]
        chk.traces += summ["runs"]
        chk.nontrivial_count += summ["runs"]
        traces.append(tp)
    chk.evaluations += events
    chk.part("B_random", shards=shards, runs=shards * runs, calls_validated=events)
    validate(chk, vh, traces, "seeded random run")


def run(chk):
    vh = vlib.build_harness("vh")
    quick = chk.tier == "quick"
    chk.rule = ("A: every (input of length L over {a,ESC,[,m,LF}, call cuts, fault placements) TLC explores, replayed through write, "
                "write_vectored, write_all, write_fmt (non-trivial = script contains a short write or an error). "
                "B: long grammar inputs x seeded random scripts over accept sizes {0,1,2,3,5,9,all} and Interrupted/WouldBlock/Other")
    chk.assumptions = ["caller protocol: resubmit the unconsumed tail, retry after Interrupted, stop on any other error",
                       "inner-writer observation by pointer offset into the caller's buffer"]
    spec_level(chk, quick)
    if quick:
        replay_scripts(chk, vh, 3, 1, "write,vectored,write_all,write_fmt,write_fmt_lit")
        random_runs(chk, vh, shards=8, runs=24, target=400)
    else:
        replay_scripts(chk, vh, 3, 2, "write,vectored,write_all,write_fmt,write_fmt_lit", shards=16)
        replay_scripts(chk, vh, 4, 2, "write,write_all", shards=32)
        random_runs(chk, vh, shards=48, runs=60, target=2000)
    chk.exhaustive = False


def replay(obj):
    wd = vlib.workdir("replay")
    p = os.path.join(wd, "t.ndjson")
    for e in obj["events"]:
        print(json.dumps(e))
    vlib.write_lines(p, obj["events"])
    ok, rej, _ = vlib.tlc_trace(p, obj.get("spec", "Trace_StripStream"), "replay-c06", consts=obj.get("flags", FLAGS_OFF))
    print("recorded calls:", "accepted" if ok else "rejected at call %d" % rej["reject_at"])
    return 0 if ok else 1


def selftest():
    vh = vlib.build_harness("vh")
    wd = vlib.workdir("c06-self")
    tp = os.path.join(wd, "t.ndjson")
    vlib.run_harness(vh, ["stream-record", 11, 10, 300, tp])
    lenient = {"AcceptCtlLeak": True, "AcceptErrAdvance": True}
    ok, _, _ = vlib.tlc_trace(tp, "Trace_StripStream", "c06-self-a", consts=lenient)
    if not ok:
        return False
    lines = open(tp).read().split("\n")
    # corrupt an observation: the inner writer is said to have accepted one byte less of a piece while the call still
    # reports everything consumed - a visible byte is lost
    def pick(i, l):
        if i <= 3 or '"op":"write"' not in l or '"ret":["ok",' not in l or '"inner":[[' not in l:
            return False
        o = json.loads(l)
        return len(o["inner"]) == 1 and o["inner"][0][2] == "ok" and o["inner"][0][3] == o["inner"][0][1] >= 1 and o["ret"][1] >= o["inner"][0][0] + o["inner"][0][1]
    idx = next(i for i, l in enumerate(lines) if pick(i, l))
    o = json.loads(lines[idx])
    o["inner"][0][3] -= 1
    lines[idx] = json.dumps(o, separators=(",", ":"))
    open(tp, "w").write("\n".join(lines))
    ok, rej, _ = vlib.tlc_trace(tp, "Trace_StripStream", "c06-self-b", consts=lenient)
    return (not ok) and rej["reject_at"] == idx + 1
