"""C11 - the git colour parser accepts exactly git's syntax and denotes the right style.
   (also hosts the shared driver for C12)

 S  MC_GitStyle (roundtrip mode): Parse(Print(s)) = s for every expressible style of a bounded domain.
 A  MC_GitStyle (enum mode): every description of up to 2 (thorough: 3) words over a 61-word vocabulary (attributes,
    negations, colours, boundary numbers, hex forms, near misses, non-ASCII) in several whitespace spellings, with the
    result the specification assigns, replayed into anstyle_git::parse.
 B  grammar-generated descriptions (case variants, Unicode whitespace), single-edit mutations, near-miss numbers and hex
    words, arbitrary Unicode; every call validated by Trace_GitStyle.
"""
import json, os
import vlib
from props.c02 import mk_cfg


def parser_check(chk, vh, mc, mc_consts, trace_spec, replay_cmd, record_cmd, shards, per_shard, label):
    wd = vlib.workdir(chk.prop)
    cfg = mk_cfg("spec/mc/%s.cfg" % mc, os.path.join(wd, "e.cfg"), mc_consts)
    path = os.path.join(wd, "cases.ndjson")
    n = [0]
    with open(path, "w") as f:
        def sink(o):
            f.write(json.dumps(o, separators=(",", ":")) + "\n")
            n[0] += 1
            if o["r"][0] != "ok" or n[0] % 3 == 0:
                chk.nontrivial_count += 1
            if n[0] in (50, 900):
                chk.sample({"enumerated": o})
        r = vlib.tlc_run("spec/mc/%s.tla" % mc, cfg, chk.prop + "-enum", workers=8, payload_sink=sink, timeout=6000, xmx="8g")
    if not r.ok:
        raise vlib.ToolError("%s failed (%s):\n%s" % (mc, r.violated, vlib.tlc_counterexample(r)))
    chk.add_tlc(r, "A_enumeration")
    for l in vlib.run_harness(vh, [replay_cmd, path], timeout=7200).stdout.strip().split("\n"):
        o = json.loads(l)
        if "mismatch" in o:
            m = o["mismatch"]
            chk.violation("%s(%r): observed %s, specification says %s" % (label, m["text"], json.dumps(m["observed"])[:200], json.dumps(m["expected"])[:200]),
                          {"kind": "parse-case", "s": m["s"], "observed": m["observed"], "expected": m["expected"], "spec": trace_spec})
        else:
            chk.evaluations += o["summary"]["cases"]
            chk.part("A_enumeration", inputs=o["summary"]["cases"], exhaustive=True)
    jobs = []
    for s in range(shards):
        p = os.path.join(wd, "rec-%d.ndjson" % s)
        vlib.run_harness(vh, [record_cmd, chk.seed * 1000 + s, per_shard, p])
        jobs.append(p)

    def val(p):
        ok, rej, res = vlib.tlc_trace(p, trace_spec, chk.prop + "-" + os.path.basename(p), timeout=3000)
        return p, ok, rej, res
    for p, ok, rej, res in vlib.parallel(val, jobs, jobs=8):
        chk.add_tlc(res)
        if not ok:
            e = rej["event"]
            text = "".join(chr(c) for c in e["s"])
            chk.violation("%s(%r) returned %s - rejected by %s (expected %s)" % (label, text, json.dumps(e["r"])[:200], trace_spec, json.dumps(rej.get("expected"))[:200]),
                          {"kind": "parse-case", "s": e["s"], "observed": e["r"], "expected": rej.get("expected"), "spec": trace_spec})
    chk.traces += shards * per_shard
    chk.evaluations += shards * per_shard
    chk.nontrivial_count += shards * per_shard
    chk.part("B_generated", calls=shards * per_shard)
    chk.sample({"recorded": json.loads(open(jobs[0]).readline())})


def run(chk):
    vh = vlib.build_harness("vh")
    quick = chk.tier == "quick"
    chk.rule = ("A: all 1..N-word descriptions over the vocabulary (non-trivial: rejected inputs and every third accepted one); "
                "B: seeded grammar/mutation/near-miss/Unicode descriptions, every call validated")
    chk.assumptions = ["keywords fold ASCII case only; U+212A (KELVIN SIGN, which Unicode-lowercases to ASCII k) is outside the domain",
                       "#rgb denotes the per-digit values (the crate's pinned tests)", "leading zeros in numbers are accepted (git uses strtol)"]
    wd = vlib.workdir("c11-rt")
    cfg = mk_cfg("spec/mc/MC_GitStyle.cfg", os.path.join(wd, "rt.cfg"), {"Mode": '"roundtrip"'})
    r = vlib.tlc_run("spec/mc/MC_GitStyle.tla", cfg, "c11-rt", workers=8, timeout=3000)
    if not r.ok:
        raise vlib.ToolError("print/parse round trip fails on the specification (%s):\n%s" % (r.violated, vlib.tlc_counterexample(r)))
    chk.add_tlc(r, "S_roundtrip")
    parser_check(chk, vh, "MC_GitStyle", {"Words_": 2 if quick else 3, "Mode": '"enum"'}, "Trace_GitStyle", "git-replay", "git-record",
                 8 if quick else 32, 1500 if quick else 6000, "anstyle_git::parse")
    chk.exhaustive = False


def replay(obj):
    vh = vlib.build_harness("vh")
    wd = vlib.workdir("replay")
    p = os.path.join(wd, "c.ndjson")
    git = obj.get("spec") == "Trace_GitStyle"
    text = "".join(chr(c) for c in obj["s"])
    print("input:", repr(text), "observed when found:", obj["observed"], "expected:", obj["expected"])
    vlib.write_lines(p, [{"s": obj["s"], "r": obj["expected"]}])
    out = vlib.run_harness(vh, ["git-replay" if git else "ls-replay", p]).stdout
    print(out)
    return 1 if '"mismatch"' in out else 0


def selftest():
    wd = vlib.workdir("c11-self")
    p = os.path.join(wd, "t.ndjson")
    good = {"s": [114, 101, 100], "r": ["ok", {"fg": ["ansi", 1], "bg": ["none"], "ul": ["none"], "eff": []}]}
    bad = {"s": [114, 101, 100], "r": ["ok", {"fg": ["ansi", 2], "bg": ["none"], "ul": ["none"], "eff": []}]}
    vlib.write_lines(p, [good, bad])
    ok, rej, _ = vlib.tlc_trace(p, "Trace_GitStyle", "c11-self")
    return (not ok) and rej["reject_at"] == 2
