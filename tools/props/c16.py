"""C16 - conversions to other styling crates preserve colours and effects (also hosts the clap-flag part of C09).

 B  for ansi_term, crossterm, owo-colors, termcolor and yansi the converted style is rendered by the target library itself
    around a marker; every rendering is validated by Trace_Convert: bytes -> VtParser -> strict SGR -> the rendition at
    the marker equals the style restricted to what the library can express (Convert.tla); syntect -> anstyle by field
    comparison.  All 16 + 256 colours and an RGB lattice per colour slot; effect sets: all with <= 2 members + a seeded
    eighth (quick) or all 4096 (thorough), alone and combined with seeded colours.
"""
import json, os, subprocess
import vlib


def conv_bin():
    return vlib.build_harness("vh-conv", bin_name="vh-conv")


def clap_part(chk):
    """--color=<arg> after every prior value of the process-wide choice; judged by Trace_ColorChoice (ColorChoice!ClapFlag)"""
    vc = conv_bin()
    env = {k: v for k, v in os.environ.items() if k not in ("NO_COLOR", "CLICOLOR", "CLICOLOR_FORCE")}
    out = subprocess.run([vc, "clap"], stdout=subprocess.PIPE, stderr=subprocess.PIPE, text=True, env=env, timeout=120)
    if out.returncode != 0:
        raise vlib.ToolError("vh-conv clap failed: " + out.stderr[-800:])
    evs = json.loads(out.stdout)
    wd = vlib.workdir("c09-clap")
    p = os.path.join(wd, "clap.ndjson")
    bad = 0
    rest = evs
    # validate; after a rejection continue behind the rejected event so that every event is judged
    while rest and bad < 10:
        vlib.write_lines(p, rest)
        ok, rej, res = vlib.tlc_trace(p, "Trace_ColorChoice", "c09-clap")
        chk.add_tlc(res)
        if ok:
            break
        e = rej["event"]
        bad += 1
        chk.violation("clap flag --color=%s after a global choice of %s: parsed %s, global afterwards %s (ColorChoice!ClapFlag: the flag maps one-to-one onto the "
                      "global choice and is written through)" % (e["arg"], e["prior"], e["parsed"], e["global_after"]), {"kind": "clap-flag", "event": e})
        rest = rest[rej["reject_at"]:]
    chk.evaluations += len(evs)
    chk.part("A_clap_flag", cases=len(evs), priors=4)


def run(chk):
    vc = conv_bin()
    quick = chk.tier == "quick"
    chk.rule = ("per adapter: 16 + 256 colours + RGB lattice in each slot; effect sets with <= 2 members + every 8th (quick) / all 4096 (thorough), alone and "
                "with seeded colours; non-trivial = every event (all are non-plain)")
    chk.assumptions = ["Expressible per library as listed in spec/Convert.tla (minimum versions of the adapters' Cargo.toml)",
                       "colours compared up to the palette identity Ansi(n) = Ansi256(n), n < 16; brightness only where the library has a per-colour form",
                       "library switches pinned: NO_COLOR/CLICOLOR* unset, yansi enabled"]
    wd = vlib.workdir("c16")
    shards = 8 if quick else 16
    prefix = os.path.join(wd, "cv")
    env = {k: v for k, v in os.environ.items() if k not in ("NO_COLOR", "CLICOLOR", "CLICOLOR_FORCE")}
    out = subprocess.run([vc, "record", str(chk.seed), "0" if quick else "1", str(shards), prefix], stdout=subprocess.PIPE, stderr=subprocess.PIPE,
                         text=True, env=env, timeout=3600)
    if out.returncode != 0:
        raise vlib.ToolError("vh-conv record failed: " + out.stderr[-1500:])
    summ = json.loads(out.stdout.strip().split("\n")[-1])["summary"]

    def val(k):
        return vlib.tlc_trace("%s-%d.ndjson" % (prefix, k), "Trace_Convert", "c16-%d" % k, timeout=20000)
    for ok, rej, res in vlib.parallel(val, range(shards), jobs=8):
        chk.add_tlc(res)
        if not ok:
            e = rej["event"]
            chk.violation("%s: style %s rendered as %r - rejected by Trace_Convert" % (e["lib"], json.dumps(e["st"]), bytes(e["bytes"])), {"kind": "convert-event", "event": e})
    chk.traces += summ["events"]
    chk.evaluations += summ["events"]
    chk.nontrivial_count += summ["events"]
    chk.part("B_renderings", events=summ["events"], adapters=["ansi_term", "crossterm", "owo_colors", "termcolor", "yansi", "syntect"],
             exhaustive_colours=True, exhaustive_effect_sets=not quick)
    chk.sample({"event": json.loads(open(prefix + "-0.ndjson").readline())})
    chk.exhaustive = not quick


def replay(obj):
    if obj["kind"] == "clap-flag":
        print(json.dumps(obj))
        return 1
    wd = vlib.workdir("replay")
    p = os.path.join(wd, "e.ndjson")
    vlib.write_lines(p, [obj["event"]])
    ok, rej, _ = vlib.tlc_trace(p, "Trace_Convert", "replay-c16")
    print(json.dumps(obj["event"]))
    print("recorded rendering:", "accepted" if ok else "rejected")
    return 0 if ok else 1


def setup():
    conv_bin()


def selftest():
    wd = vlib.workdir("c16-self")
    p = os.path.join(wd, "e.ndjson")
    good = {"lib": "yansi", "st": {"fg": ["ansi", 12], "bg": ["none"], "ul": ["none"], "eff": []}, "bytes": [27, 91, 57, 52, 109, 88, 27, 91, 48, 109]}
    bad = dict(good); bad["bytes"] = [27, 91, 57, 48, 109, 88, 27, 91, 48, 109]
    vlib.write_lines(p, [good, bad])
    ok, rej, _ = vlib.tlc_trace(p, "Trace_Convert", "c16-self")
    return (not ok) and rej["reject_at"] == 2
