"""C09 - colour auto-detection follows the documented precedence for every environment.

 S  MC_ColorChoice: the precedence theorems T1-T6 over the full cross product (6144 configurations), with witness
    pairs for every precedence step (non-vacuity).
 A  all 6144 configurations with the expected decision, reported mode and probe values, ordered so that consecutive
    configurations differ in one variable, applied by mutating the environment of one single-threaded process;
    AutoStream::choice / AutoStream::auto(..).current_choice() for Vec<u8>, File, Box<dyn Write> (non-terminal) and the
    slave side of a pty (terminal); COLORTERM x truecolor; the clap flag (vh-conv).
"""
import json, os, subprocess
import vlib

ORDER = [("g", ["Auto", "AlwaysAnsi", "Always", "Never"]), ("NO_COLOR", ["unset", "", "0", "1"]), ("CLICOLOR_FORCE", ["unset", "", "0", "1"]),
         ("CLICOLOR", ["unset", "", "0", "1"]), ("TERM", ["unset", "", "dumb", "xterm-256color"]), ("CI", ["unset", "", "true"]), ("term", [False, True])]


def gray_key(o):
    """position of the configuration in a reflected mixed-radix Gray sequence (neighbours differ in one variable)"""
    digits = []
    for name, vals in ORDER:
        v = o[name] if name in ("g", "term") else o["env"][name]
        digits.append(vals.index(v))
    # reflected mixed-radix Gray code -> rank
    rank = 0
    flip = False
    for (name, vals), d in zip(ORDER, digits):
        n = len(vals)
        dd = (n - 1 - d) if flip else d
        rank = rank * n + dd
        if dd % 2 == 1:
            flip = not flip
    return rank


def run(chk):
    vh = vlib.build_harness("vh")
    chk.rule = "the full cross product 4x4x4x4x4x3x2 = 6144 configurations (non-trivial: global choice Auto, 1536 configurations)"
    chk.assumptions = ["non-Windows platform", "terminal = slave side of a pty opened by the harness (openpty)"]
    got = []
    r = vlib.tlc_run("spec/mc/MC_ColorChoice.tla", "spec/mc/MC_ColorChoice.cfg", "c09-mc", workers=4, payload_sink=got.append, timeout=1200)
    if not r.ok:
        raise vlib.ToolError("MC_ColorChoice failed (%s):\n%s" % (r.violated, vlib.tlc_counterexample(r)))
    chk.add_tlc(r, "S_theorems")
    if len(got) != 6144:
        raise vlib.ToolError("expected 6144 configurations, TLC emitted %d" % len(got))
    got.sort(key=gray_key)
    wd = vlib.workdir("c09")
    p = os.path.join(wd, "configs.ndjson")
    vlib.write_lines(p, got)
    env = {k: v for k, v in os.environ.items() if k not in ("NO_COLOR", "CLICOLOR", "CLICOLOR_FORCE", "CI", "COLORTERM")}
    rr = subprocess.run([vh, "choice-replay", p], stdout=subprocess.PIPE, stderr=subprocess.PIPE, text=True, env=env, timeout=600)
    if rr.returncode != 0:
        raise vlib.ToolError("choice-replay failed: " + rr.stderr[-1500:])
    for l in rr.stdout.strip().split("\n"):
        o = json.loads(l)
        if "mismatch" in o:
            m = o["mismatch"]
            chk.violation("%s in configuration %s: observed %s, specification says %s" % (m["what"], json.dumps(m["config"]), m["observed"], m["expected"]),
                          {"kind": "choice-config", "case": m})
        else:
            s = o["summary"]
            if s["terminal_cases_skipped"]:
                raise vlib.ToolError("no pty available: terminal configurations could not be exercised")
            chk.evaluations += s["checks"]
            chk.part("A_configurations", configurations=s["cases"], observations=s["checks"], exhaustive=True)
    chk.nontrivial_count += sum(1 for o in got if o["g"] == "Auto")
    chk.traces += len(got)
    chk.sample({"configuration": got[777]})
    std_handles_part(chk, vh)
    # the clap flag maps one-to-one onto the global choice (needs the vh-conv crate, which links clap)
    try:
        from props import c16
        c16.clap_part(chk)
    except ImportError:
        chk.notes.append("clap flag not exercised in this revision")
    chk.exhaustive = True


def std_handles_part(chk, vh):
    """the decision for the REAL Stdout / StdoutLock / Stderr / StderrLock (and anstream::stdout()/stderr()) of a child whose
    fd 1 and fd 2 are bound to a pty or a pipe in all four combinations, judged by Trace_ColorChoice"""
    import pty
    wd = vlib.workdir("c09-std")
    base = {k: v for k, v in os.environ.items() if k not in ("NO_COLOR", "CLICOLOR", "CLICOLOR_FORCE", "CI", "COLORTERM", "TERM")}
    NU = "\udcff\udcfe"     # a value that is not valid UTF-8 (bytes FF FE): present and non-empty like any other
    envs = [{"TERM": "xterm-256color"}, {"TERM": "dumb"}, {"TERM": "dumb", "CI": "true"}, {"CLICOLOR": "1"}, {"TERM": "xterm-256color", "NO_COLOR": "1"},
            {"NO_COLOR": NU, "CLICOLOR_FORCE": "1"}, {"CLICOLOR_FORCE": NU}, {"CLICOLOR": NU, "TERM": "dumb"}, {"TERM": NU}, {"CI": NU, "TERM": "dumb"}]
    evs = []
    for ei, extra in enumerate(envs):
        env = dict(base); env.update(extra)
        full = {v: ("<not UTF-8>" if extra.get(v) == NU else extra.get(v, "unset")) for v in ("NO_COLOR", "CLICOLOR_FORCE", "CLICOLOR", "TERM", "CI")}
        for out_term in (False, True):
            for err_term in (False, True):
                fds = []
                def mk(term):
                    if term:
                        m, s_ = pty.openpty(); fds.extend([m, s_]); return s_
                    r_, w_ = os.pipe(); fds.extend([r_, w_]); return w_
                so, se = mk(out_term), mk(err_term)
                outp = os.path.join(wd, "h-%d-%d%d.ndjson" % (ei, out_term, err_term))
                try:
                    r = subprocess.run([vh, "std-term", outp], stdin=subprocess.DEVNULL, stdout=so, stderr=se, env=env, timeout=60)
                finally:
                    for fd in fds:
                        os.close(fd)
                if r.returncode != 0:
                    raise vlib.ToolError("vh std-term failed (rc %d)" % r.returncode)
                for l in open(outp):
                    o = json.loads(l)
                    term = out_term if "stdout" in o["handle"] else err_term
                    evs.append({"k": "decide", "handle": o["handle"], "via": "current_choice" if o["handle"].startswith("anstream::") else "choice", "env": full, "term": term, "decision": o["decision"],
                                "stdout_is_terminal": out_term, "stderr_is_terminal": err_term})
    p = os.path.join(wd, "std.ndjson")
    rest = evs
    bad = 0
    while rest and bad < 10:
        vlib.write_lines(p, rest)
        ok, rej, res = vlib.tlc_trace(p, "Trace_ColorChoice", "c09-std")
        chk.add_tlc(res)
        if ok:
            break
        e = rej["event"]
        bad += 1
        chk.violation("decision for %s with stdout %s / stderr %s, env %s: observed %s, ColorChoice!Query says otherwise"
                      % (e["handle"], "a terminal" if e["stdout_is_terminal"] else "a pipe", "a terminal" if e["stderr_is_terminal"] else "a pipe",
                         json.dumps(e["env"]), e["decision"]), {"kind": "std-handle", "event": e})
        rest = rest[rej["reject_at"]:]
    chk.evaluations += len(evs)
    chk.part("A_real_standard_handles", observations=len(evs), environments=len(envs), fd_combinations=4)


def replay(obj):
    if obj.get("kind") in ("std-handle", "clap-flag"):
        wd = vlib.workdir("replay")
        p = os.path.join(wd, "e.ndjson")
        vlib.write_lines(p, [obj["event"]])
        ok, rej, _ = vlib.tlc_trace(p, "Trace_ColorChoice", "replay-c09")
        print(json.dumps(obj["event"]))
        print("recorded observation:", "accepted" if ok else "rejected by Trace_ColorChoice (re-run the check to observe the code again)")
        return 0 if ok else 1
    vh = vlib.build_harness("vh")
    m = obj["case"]
    print(json.dumps(m))
    print("re-run: python3 tools/verif.py check C09 (the configuration is part of the exhaustive enumeration)")
    return 1


def selftest():
    vh = vlib.build_harness("vh")
    wd = vlib.workdir("c09-self")
    p = os.path.join(wd, "c.ndjson")
    cfg = {"g": "Auto", "env": {"NO_COLOR": "1", "CLICOLOR_FORCE": "1", "CLICOLOR": "unset", "TERM": "xterm-256color", "CI": "unset"}, "term": False,
           "decision": "Always", "reported": "AlwaysAnsi", "no_color": True, "clicolor_force": True, "clicolor": "none", "term_color": True, "ci": False}
    vlib.write_lines(p, [cfg])
    env = {k: v for k, v in os.environ.items() if k not in ("NO_COLOR", "CLICOLOR", "CLICOLOR_FORCE", "CI", "COLORTERM")}
    out = subprocess.run([vh, "choice-replay", p], stdout=subprocess.PIPE, text=True, env=env).stdout
    return '"mismatch"' in out
