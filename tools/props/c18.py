"""C18 - the legacy-console stream hands over each text run once with 16-colour fg/bg.

 The stream's source (crates/anstream/src/wincon.rs, Windows-only in the crate) is compiled from the working tree
 into harness/vh-wincon together with crates/anstream/src/fmt.rs.
 S  (shared with C07) the extractor specification; Cap16 reduction in WinconStream.tla.
 A  MC_ConsoleEnum: every SGR sequence of MC_SgrEnum with the colour pairs the console may receive for the marker,
    replayed through the stream under every chunking (write_all and write per chunk).
 B  grammar texts x seeded chunkings x op mixes (write, write_vectored, write_all, write!) against a recording
    console, and against consoles that accept short counts or fail; every call validated by Trace_WinconStream.
 S2 MC_WinconStream: the stream's algorithm over an unreliable console as a state machine (Offer / Finish; console answers
    all / one byte / Ok(0) / Interrupted / Other): the observational judge accepts every behaviour (DesignOk), on Ok the console
    accepted exactly the runs' text (Exact), an error leaves a prefix (ErrPrefix), every call returns (Termination under WF);
    every behaviour (text with an earlier call, entry point, console script) is replayed on the real stream and judged by
    Trace_WinconStream like any recorded call.
"""
import json, os, subprocess
import vlib
from props.c02 import mk_cfg

OFF = {"AcceptIntermediatesIgnored": False, "AcceptShortWriteAbandon": False}


def run_vw(vw, args):
    r = subprocess.run([vw] + [str(a) for a in args], stdout=subprocess.PIPE, stderr=subprocess.PIPE, text=True, timeout=7200)
    if r.returncode != 0:
        raise vlib.ToolError("vh-wincon failed: %s\n%s" % (args, r.stderr[-2000:]))
    return r.stdout


def active_flags(chk, vw):
    flags = dict(OFF)
    wd = vlib.workdir("c18-witness")
    for f in chk.findings.open_for("C18"):
        if f["id"] == "F13":
            # canonical witness: write(b"abc") against a console that accepts 1 byte
            p = os.path.join(wd, "w.ndjson")
            ev = run_vw(vw, ["witness", p])
            ok, rej, res = vlib.tlc_trace(p, "Trace_WinconStream", "c18-w", consts=OFF)
            chk.add_tlc(res)
            if not ok:
                flags["AcceptShortWriteAbandon"] = True
                chk.known_finding("F13", f["what"], rej["event"])
    return flags


def run(chk):
    vlib.build_harness("vh")
    vw = vlib.build_harness("vh-wincon", bin_name="vh-wincon")
    quick = chk.tier == "quick"
    chk.rule = ("A: all SGR sequences of <= 2 groups (44 spellings) x every chunking x {write_all, write}; B: grammar texts x seeded chunkings x "
                "op mixes, reliable console and consoles with short counts / Interrupted / Other (non-trivial: every run contains SGR)")
    chk.assumptions = ["the stream source is compiled from the working tree with stand-ins for crate::stream::{AsLockedWrite,IsTerminal}",
                       "lenient SGR reading as in C07; DEL not counted as text"]
    flags = active_flags(chk, vw)
    wd = vlib.workdir("c18")
    cfg = mk_cfg("spec/mc/MC_ConsoleEnum.cfg", os.path.join(wd, "e.cfg"), {"Groups": 2 if quick else 3, "UseFull": True if quick else False})
    path = os.path.join(wd, "cases.ndjson")
    with open(path, "w") as f:
        r = vlib.tlc_run("spec/mc/MC_ConsoleEnum.tla", cfg, "c18-enum", workers=8,
                         payload_sink=lambda o: f.write(json.dumps(o, separators=(",", ":")) + "\n"), timeout=3000)
    if not r.ok:
        raise vlib.ToolError("MC_ConsoleEnum failed: " + r.raw_tail[-1500:])
    chk.add_tlc(r, "A_console_enum")
    for l in run_vw(vw, ["replay", path, 11]).strip().split("\n"):
        o = json.loads(l)
        if "mismatch" in o:
            m = o["mismatch"]
            chk.violation("legacy-console stream on %r chunks %s via %s: observed %s, specification allows colour pairs %s / text %s"
                          % (bytes(m["input"]), m["chunks"], m["op"], json.dumps(m["observed"]), json.dumps(m["chars"])[:300], ""), {"kind": "console-case", "case": m})
        else:
            s = o["summary"]
            chk.evaluations += s["runs"]
            chk.nontrivial_count += s["cases"]
            chk.traces += s["cases"]
            chk.part("A_console_enum", sequences=s["cases"], chunked_runs=s["runs"], exhaustive=True)
    jobs = []
    design_part(chk, vw, wd, quick, jobs)
    shards = 8 if quick else 40
    for s in range(shards):
        p = os.path.join(wd, "lc-%d.ndjson" % s)
        faults = s % 2
        out = run_vw(vw, ["record", chk.seed * 1000 + s, 10 if quick else 24, 300 if quick else 1200, p, faults])
        jobs.append((p, json.loads(out.strip().split("\n")[-1])["summary"]))

    # the whole 256-colour palette and the direct codes, 16 per run, then the fault family: a three-run buffer in one call with
    # the console failing or short at a later run x {write, write_all, write!} (faults argument 2)
    p = os.path.join(wd, "lc-pal.ndjson")
    out = run_vw(vw, ["record", chk.seed, 17 + 42 + 4, 300, p, 2])
    jobs.append((p, json.loads(out.strip().split("\n")[-1])["summary"]))

    def val(j):
        ok, rej, res = vlib.tlc_trace(j[0], "Trace_WinconStream", "c18-" + os.path.basename(j[0]), consts=flags, timeout=3000)
        return j, ok, rej, res
    for (p, summ), ok, rej, res in vlib.parallel(val, jobs, jobs=8):
        chk.add_tlc(res)
        chk.evaluations += summ["events"]
        chk.traces += summ["runs"]
        chk.nontrivial_count += summ["runs"]
        if not ok:
            lines = open(p).read().split("\n")
            at = rej["reject_at"] - 1
            start = at
            while start > 0 and json.loads(lines[start])["new"] != 1:
                start -= 1
            evs = [json.loads(l) for l in lines[start:at + 1]]
            chk.violation("legacy-console trace rejected by Trace_WinconStream at call %d: op=%s buf=%r console=%s ret=%s"
                          % (rej["reject_at"], evs[-1]["op"], bytes(evs[-1]["buf"]), json.dumps(evs[-1]["console"])[:300], evs[-1]["ret"]),
                          {"kind": "console-trace", "events": evs, "flags": flags})
    chk.part("B_traces", shards=shards, calls=sum(j[1]["events"] for j in jobs))
    std_lock_part(chk, vw, flags)
    chk.sample({"call": json.loads(open(jobs[0][0]).readline())})
    chk.exhaustive = False


def design_part(chk, vw, wd, quick, jobs):
    """S: the stream's algorithm over an unreliable console as a state machine (MC_WinconStream): DesignOk (the observational
    judge accepts every behaviour), Exact, ErrPrefix, and Termination under fairness; every behaviour is then replayed on the
    real stream (script-replay) and the recorded calls join the traces judged by Trace_WinconStream."""
    consts = {"MaxScript": 3 if quick else 5, "MaxFaults": 2 if quick else 3, "AllTexts": not quick}
    cfg = mk_cfg("spec/mc/MC_WinconStream.cfg", os.path.join(wd, "ws.cfg"), consts)
    path = os.path.join(wd, "behaviours.ndjson")
    rets = {}
    n = [0]
    with open(path, "w") as f:
        def sink(o):
            f.write(json.dumps(o, separators=(",", ":")) + "\n")
            n[0] += 1
            rets[o["ret"][0]] = rets.get(o["ret"][0], 0) + 1
        r = vlib.tlc_run("spec/mc/MC_WinconStream.tla", cfg, "c18-design", workers=4, payload_sink=sink, timeout=3000)
    if not r.ok:
        raise vlib.ToolError("MC_WinconStream failed (%s):\n%s" % (r.violated, vlib.tlc_counterexample(r)))
    chk.add_tlc(r, "S_stream_design")
    # non-vacuity: every way a call can end occurs among the behaviours
    for k in ("ok", "eZ", "eI", "eO"):
        if not rets.get(k):
            raise vlib.ToolError("MC_WinconStream: no behaviour ends with %s (vacuous model)" % k)
    lcfg = mk_cfg("spec/mc/MC_WinconStreamLive.cfg", os.path.join(wd, "wsl.cfg"), consts)
    rl = vlib.tlc_run("spec/mc/MC_WinconStream.tla", lcfg, "c18-design-live", workers=4, timeout=3000)
    if not rl.ok:
        raise vlib.ToolError("MC_WinconStream liveness failed (%s):\n%s" % (rl.violated, vlib.tlc_counterexample(rl)))
    chk.add_tlc(rl, "S_stream_design_termination")
    out = os.path.join(wd, "lc-design.ndjson")
    summ = json.loads(run_vw(vw, ["script-replay", path, out]).strip().split("\n")[-1])["summary"]
    jobs.append((out, {"events": summ["events"], "runs": summ["cases"]}))
    chk.part("S_stream_design", behaviours=n[0], endings=rets, constants=consts, exhaustive=True,
             properties=["DesignOk", "Exact", "ErrPrefix", "Termination (WF)"], replayed_calls=summ["events"])


STD_LOCK_CASES = [
    (b"\x1b[31mred ", b"still red\x1b[0m plain"),            # a colour in force at lock()
    (b"\x1b[44;3", b"2mgreen on blue\x1b[0m"),               # CSI cut at lock()
    (b"a\xc3", b"\xa9b"),                                    # character cut at lock()
    (b"\x1b]0;ti", b"tle\x07Z"),                             # OSC cut at lock()
    (b"x\x1b[1;9", b"2;103my\x1b[39mz"),                     # bright codes, bold ignored by the console
    (b"\x1b[38;5;1", b"2mq\x1b[48;2;1;2;3mr"),               # indexed < 16 maps to the palette, RGB falls back to default
    (b"plain", b" text"),
    (b"\x1b[35m", b"\x1b[0;36mc"),
]
FRAME = None


def parse_frames(part):
    """anstyle-wincon's ANSI fallback writes [fg code][bg code] data [reset] per write_colored call; back to console calls"""
    import re
    calls = []
    pos = 0
    rx = re.compile(rb"(?:\x1b\[(3[0-7]|9[0-7])m)?(?:\x1b\[(4[0-7]|10[0-7])m)?([^\x1b]*)(?:\x1b\[0m)?")
    while pos < len(part):
        m = rx.match(part, pos)
        if not m or m.end() == pos:
            return None
        fg = 16 if m.group(1) is None else (int(m.group(1)) - 30 if int(m.group(1)) < 90 else int(m.group(1)) - 90 + 8)
        bg = 16 if m.group(2) is None else (int(m.group(2)) - 40 if int(m.group(2)) < 100 else int(m.group(2)) - 100 + 8)
        data = list(m.group(3))
        if data:
            calls.append([fg, bg, data, "ok", len(data)])
        pos = m.end()
    return calls


def std_lock_part(chk, vw, flags):
    """WinconStream over the REAL stdout / stderr (a pipe: anstyle-wincon's ANSI fallback), a chunk, lock(), a chunk: the locked
    stream must continue with the carried state; the framed output is read back as console calls and judged by Trace_WinconStream"""
    wd = vlib.workdir("c18-std")
    cp = os.path.join(wd, "cases.ndjson")
    vlib.write_lines(cp, [{"chunks": [list(a), list(b)]} for a, b in STD_LOCK_CASES])
    n = 0
    for stream in ("stdout", "stderr"):
        r = subprocess.run([vw, "std-lock", cp, stream], stdout=subprocess.PIPE, stderr=subprocess.PIPE, timeout=300)
        if r.returncode != 0:
            raise vlib.ToolError("vh-wincon std-lock failed (%d)" % r.returncode)
        data = r.stdout if stream == "stdout" else r.stderr
        cases = data.split(b"\n@@SEP@@\n")[:-1]
        if len(cases) != len(STD_LOCK_CASES):
            raise vlib.ToolError("std-lock %s: %d outputs for %d cases" % (stream, len(cases), len(STD_LOCK_CASES)))
        evs = []
        for (a, b), out in zip(STD_LOCK_CASES, cases):
            parts = out.split(b"\n@@CUT@@\n")[:-1]
            if len(parts) != 2:
                parts = (parts + [b"", b""])[:2]
                crashed = True
            else:
                crashed = False
            for k, (buf, part) in enumerate(zip((a, b), parts)):
                calls = parse_frames(part)
                evs.append({"op": "write_all", "new": 1 if k == 0 else 0, "buf": list(buf),
                            "console": calls if calls is not None else [[16, 16, list(part), "ok", len(part)]],
                            "ret": ["panic", 0] if crashed else ["ok", len(buf)], "lock_before": k == 1, "stream": stream})
        p = os.path.join(wd, "std-%s.ndjson" % stream)
        rest = evs
        base = 0
        bad = 0
        while rest and bad < 6:
            vlib.write_lines(p, rest)
            ok, rej, res = vlib.tlc_trace(p, "Trace_WinconStream", "c18-std", consts=flags)
            chk.add_tlc(res)
            if ok:
                break
            bad += 1
            at = rej["reject_at"]
            e = rest[at - 1]
            chk.violation("WinconStream<%s>%s: write_all(%r) reached the stream as %s - rejected by Trace_WinconStream"
                          % (stream, " after lock()" if e["lock_before"] else "", bytes(e["buf"]), json.dumps(e["console"])[:300]),
                          {"kind": "console-trace", "events": [x for x in rest[max(0, at - 2):at]], "flags": flags})
            # continue behind the case that failed
            nxt = at
            while nxt < len(rest) and rest[nxt]["new"] != 1:
                nxt += 1
            rest = rest[nxt:]
        n += len(evs)
    chk.evaluations += n
    chk.part("B_real_process_streams_with_lock", cases=len(STD_LOCK_CASES), streams=2, calls=n)


def replay(obj):
    wd = vlib.workdir("replay")
    if obj["kind"] == "console-case":
        vw = vlib.build_harness("vh-wincon", bin_name="vh-wincon")
        m = obj["case"]
        p = os.path.join(wd, "c.ndjson")
        vlib.write_lines(p, [{"i": m["input"], "chars": m["chars"]}])
        out = run_vw(vw, ["replay", p, 14])
        print(out)
        return 1 if '"mismatch"' in out else 0
    p = os.path.join(wd, "t.ndjson")
    for e in obj["events"]:
        print(json.dumps(e)[:400])
    vlib.write_lines(p, obj["events"])
    ok, rej, _ = vlib.tlc_trace(p, "Trace_WinconStream", "replay-c18", consts=obj.get("flags", OFF))
    print("recorded calls:", "accepted" if ok else "rejected at call %d" % rej["reject_at"])
    return 0 if ok else 1


def setup():
    vlib.build_harness("vh-wincon", bin_name="vh-wincon")


def selftest():
    vw = vlib.build_harness("vh-wincon", bin_name="vh-wincon")
    wd = vlib.workdir("c18-self")
    p = os.path.join(wd, "t.ndjson")
    run_vw(vw, ["record", 3, 6, 200, p, 0])
    ok, _, _ = vlib.tlc_trace(p, "Trace_WinconStream", "c18-self-a", consts=OFF)
    if not ok:
        return False
    lines = open(p).read().split("\n")
    idx = next(i for i, l in enumerate(lines) if '"console":[[' in l and i > 5)
    o = json.loads(lines[idx]); o["console"][0][0] = (o["console"][0][0] + 1) % 17
    lines[idx] = json.dumps(o, separators=(",", ":"))
    open(p, "w").write("\n".join(lines))
    ok, rej, _ = vlib.tlc_trace(p, "Trace_WinconStream", "c18-self-b", consts=OFF)
    return (not ok) and rej["reject_at"] == idx + 1
