"""C18 - the legacy-console stream hands over each text run once with 16-colour fg/bg.

 The stream's source (crates/anstream/src/wincon.rs, Windows-only in the crate) is compiled from the working tree
 into harness/vh-wincon together with crates/anstream/src/fmt.rs.
 S  (shared with C07) the extractor specification; Cap16 reduction in WinconStream.tla.
 A  MC_ConsoleEnum: every SGR sequence of MC_SgrEnum with the colour pairs the console may receive for the marker,
    replayed through the stream under every chunking (write_all and write per chunk).
 B  grammar texts x seeded chunkings x op mixes (write, write_vectored, write_all, write!) against a recording
    console, and against consoles that accept short counts or fail; every call validated by Trace_WinconStream.
"""
import json, os, subprocess
import vlib
from props.c02 import mk_cfg

OFF = {"AcceptIntermediatesIgnored": False, "AcceptShortWriteAbandon": False}


def run_vw(vw, args):
    r = subprocess.run([vw] + [str(a) for a in args], stdout=subprocess.PIPE, stderr=subprocess.PIPE, text=True, timeout=7200)
    if r.returncode != 0:
        raise vlib.ToolError("vh-wincon failed: %s\n%s" % (args, r.stderr[-2000:]))
    return r.stdout


def active_flags(chk, vw):
    flags = dict(OFF)
    wd = vlib.workdir("c18-witness")
    for f in chk.findings.open_for("C18"):
        if f["id"] == "F13":
            # canonical witness: write(b"abc") against a console that accepts 1 byte
            p = os.path.join(wd, "w.ndjson")
            ev = run_vw(vw, ["witness", p])
            ok, rej, res = vlib.tlc_trace(p, "Trace_WinconStream", "c18-w", consts=OFF)
            chk.add_tlc(res)
            if not ok:
                flags["AcceptShortWriteAbandon"] = True
                chk.known_finding("F13", f["what"], rej["event"])
    return flags


def run(chk):
    vlib.build_harness("vh")
    vw = vlib.build_harness("vh-wincon", bin_name="vh-wincon")
    quick = chk.tier == "quick"
    chk.rule = ("A: all SGR sequences of <= 2 groups (44 spellings) x every chunking x {write_all, write}; B: grammar texts x seeded chunkings x "
                "op mixes, reliable console and consoles with short counts / Interrupted / Other (non-trivial: every run contains SGR)")
    chk.assumptions = ["the stream source is compiled from the working tree with stand-ins for crate::stream::{AsLockedWrite,IsTerminal}",
                       "lenient SGR reading as in C07; DEL not counted as text"]
    flags = active_flags(chk, vw)
    wd = vlib.workdir("c18")
    cfg = mk_cfg("spec/mc/MC_ConsoleEnum.cfg", os.path.join(wd, "e.cfg"), {"Groups": 2 if quick else 3, "UseFull": True if quick else False})
    path = os.path.join(wd, "cases.ndjson")
    with open(path, "w") as f:
        r = vlib.tlc_run("spec/mc/MC_ConsoleEnum.tla", cfg, "c18-enum", workers=8,
                         payload_sink=lambda o: f.write(json.dumps(o, separators=(",", ":")) + "\n"), timeout=3000)
    if not r.ok:
        raise vlib.ToolError("MC_ConsoleEnum failed: " + r.raw_tail[-1500:])
    chk.add_tlc(r, "A_console_enum")
    for l in run_vw(vw, ["replay", path, 11]).strip().split("\n"):
        o = json.loads(l)
        if "mismatch" in o:
            m = o["mismatch"]
            chk.violation("legacy-console stream on %r chunks %s via %s: observed %s, specification allows colour pairs %s / text %s"
                          % (bytes(m["input"]), m["chunks"], m["op"], json.dumps(m["observed"]), json.dumps(m["chars"])[:300], ""), {"kind": "console-case", "case": m})
        else:
            s = o["summary"]
            chk.evaluations += s["runs"]
            chk.nontrivial_count += s["cases"]
            chk.traces += s["cases"]
            chk.part("A_console_enum", sequences=s["cases"], chunked_runs=s["runs"], exhaustive=True)
    jobs = []
    shards = 8 if quick else 40
    for s in range(shards):
        p = os.path.join(wd, "lc-%d.ndjson" % s)
        faults = s % 2
        out = run_vw(vw, ["record", chk.seed * 1000 + s, 10 if quick else 24, 300 if quick else 1200, p, faults])
        jobs.append((p, json.loads(out.strip().split("\n")[-1])["summary"]))

    # the whole 256-colour palette and the direct codes, 16 per run (faults argument 2 = palette runs)
    p = os.path.join(wd, "lc-pal.ndjson")
    out = run_vw(vw, ["record", chk.seed, 17, 300, p, 2])
    jobs.append((p, json.loads(out.strip().split("\n")[-1])["summary"]))

    def val(j):
        ok, rej, res = vlib.tlc_trace(j[0], "Trace_WinconStream", "c18-" + os.path.basename(j[0]), consts=flags, timeout=3000)
        return j, ok, rej, res
    for (p, summ), ok, rej, res in vlib.parallel(val, jobs, jobs=8):
        chk.add_tlc(res)
        chk.evaluations += summ["events"]
        chk.traces += summ["runs"]
        chk.nontrivial_count += summ["runs"]
        if not ok:
            lines = open(p).read().split("\n")
            at = rej["reject_at"] - 1
            start = at
            while start > 0 and json.loads(lines[start])["new"] != 1:
                start -= 1
            evs = [json.loads(l) for l in lines[start:at + 1]]
            chk.violation("legacy-console trace rejected by Trace_WinconStream at call %d: op=%s buf=%r console=%s ret=%s"
                          % (rej["reject_at"], evs[-1]["op"], bytes(evs[-1]["buf"]), json.dumps(evs[-1]["console"])[:300], evs[-1]["ret"]),
                          {"kind": "console-trace", "events": evs, "flags": flags})
    chk.part("B_traces", shards=shards, calls=sum(j[1]["events"] for j in jobs))
    chk.sample({"call": json.loads(open(jobs[0][0]).readline())})
    chk.exhaustive = False


def replay(obj):
    wd = vlib.workdir("replay")
    if obj["kind"] == "console-case":
        vw = vlib.build_harness("vh-wincon", bin_name="vh-wincon")
        m = obj["case"]
        p = os.path.join(wd, "c.ndjson")
        vlib.write_lines(p, [{"i": m["input"], "chars": m["chars"]}])
        out = run_vw(vw, ["replay", p, 14])
        print(out)
        return 1 if '"mismatch"' in out else 0
    p = os.path.join(wd, "t.ndjson")
    for e in obj["events"]:
        print(json.dumps(e)[:400])
    vlib.write_lines(p, obj["events"])
    ok, rej, _ = vlib.tlc_trace(p, "Trace_WinconStream", "replay-c18", consts=obj.get("flags", OFF))
    print("recorded calls:", "accepted" if ok else "rejected at call %d" % rej["reject_at"])
    return 0 if ok else 1


def setup():
    vlib.build_harness("vh-wincon", bin_name="vh-wincon")


def selftest():
    vw = vlib.build_harness("vh-wincon", bin_name="vh-wincon")
    wd = vlib.workdir("c18-self")
    p = os.path.join(wd, "t.ndjson")
    run_vw(vw, ["record", 3, 6, 200, p, 0])
    ok, _, _ = vlib.tlc_trace(p, "Trace_WinconStream", "c18-self-a", consts=OFF)
    if not ok:
        return False
    lines = open(p).read().split("\n")
    idx = next(i for i, l in enumerate(lines) if '"console":[[' in l and i > 5)
    o = json.loads(lines[idx]); o["console"][0][0] = (o["console"][0][0] + 1) % 17
    lines[idx] = json.dumps(o, separators=(",", ":"))
    open(p, "w").write("\n".join(lines))
    ok, rej, _ = vlib.tlc_trace(p, "Trace_WinconStream", "c18-self-b", consts=OFF)
    return (not ok) and rej["reject_at"] == idx + 1
