"""C01 - stripping removes exactly the escape sequences and nothing else.

 S  MC_StripProd: product of the reference visibility with the two-phase scanner design, full class
    alphabet, chunk boundary anywhere: unbounded input length (bytes and text scanners); each named
    deviation must produce a counterexample (non-vacuity); MC_StripRef: the reference is the projection
    of VtParser.
 A  MC_StripEnum: every byte string / UTF-8 string of length N with its requirement vector, replayed
    through every strip API and (short strings) every chunking
 B  seeded grammar streams through StripBytes / StripStr / StripStream with seeded chunkings, every call
    validated by Trace_Strip
"""
import json, os
import vlib
from props.c02 import mk_cfg

STRIP_CONSTS = {"D_RunGroundRow": False, "D_StrReset": False, "D_Utf8CtlLeak": False, "AcceptCtlLeak": False}


def product(chk, quick):
    wd = vlib.workdir(chk.prop + "-prod")
    for api in ("bytes", "str"):
        cfg = mk_cfg("spec/mc/MC_StripProd.cfg", os.path.join(wd, "p.cfg"), {"Api": '"%s"' % api})
        r = vlib.tlc_run("spec/mc/MC_StripProd.tla", cfg, chk.prop + "-prod", workers=4, coverage=True)
        if not r.ok:
            raise vlib.ToolError("scanner design does not agree with the reference (%s, %s):\n%s" % (api, r.violated, vlib.tlc_counterexample(r)))
        chk.add_tlc(r, "S_product_" + api)
        for act in ("Feed", "EndChunk"):
            if act in r.coverage and r.coverage[act][1] == 0:
                raise vlib.ToolError("vacuous product: action %s never taken" % act)
    # each deviation must be visible to the product (the invariant can fail)
    devs = [("bytes", "D_RunGroundRow"), ("bytes", "D_Utf8CtlLeak"), ("str", "D_StrReset"), ("str", "D_RunGroundRow")]
    for api, d in devs:
        cfg = mk_cfg("spec/mc/MC_StripProd.cfg", os.path.join(wd, "d.cfg"), {"Api": '"%s"' % api, d: True})
        r = vlib.tlc_run("spec/mc/MC_StripProd.tla", cfg, chk.prop + "-dev", workers=2)
        if r.violated != "Agree":
            raise vlib.ToolError("self-test failed: deviation %s (%s) produced no counterexample" % (d, api))
        chk.add_tlc(r)
    chk.part("S_deviations_have_counterexamples", deviations=[d for _, d in devs])
    cfg = mk_cfg("spec/mc/MC_StripRef.cfg", os.path.join(wd, "r.cfg"), {"Depth": 5 if quick else 7})
    r = vlib.tlc_run("spec/mc/MC_StripRef.tla", cfg, chk.prop + "-ref", workers=8, timeout=3000)
    if not r.ok:
        raise vlib.ToolError("Strip reference is not the projection of VtParser (%s):\n%s" % (r.violated, vlib.tlc_counterexample(r)))
    chk.add_tlc(r, "S_ref_is_projection_of_VtParser")


def minimize_strip(vh, input_bytes):
    """shrink a byte string on which some strip API departs from the requirement vector (F3-class hits do not count)"""
    def failing(cands):
        wd = vlib.workdir("min-strip")
        inp = os.path.join(wd, "in.ndjson")
        vlib.write_lines(inp, [{"i": c} for c in cands])
        cfgp = mk_cfg("spec/mc/Eval_Strip.cfg", os.path.join(wd, "e.cfg"), {})
        r = vlib.tlc_run("spec/mc/Eval_Strip.tla", cfgp, "min-strip-eval", workers=1, env={"INPUT": inp}, xss="1g")
        if not r.ok:
            raise vlib.ToolError("eval failed")
        case = os.path.join(wd, "case.ndjson")
        vlib.write_lines(case, r.lines)
        out = vlib.run_harness(vh, ["strip-replay", case, 6]).stdout
        bad = set()
        for l in out.strip().split("\n"):
            o = json.loads(l)
            if "mismatch" in o and o["mismatch"]["class"] != "F3":
                bad.add(tuple(o["mismatch"]["input"]))
        return [tuple(c) in bad for c in cands]
    try:
        return vlib.ddmin(input_bytes, failing)
    except vlib.ToolError:
        return list(input_bytes)


def handle_mismatch(chk, m, f3_open):
    cls = m["class"]
    if cls == "F3" and f3_open:
        chk.known_finding("F3", "offending byte of a malformed UTF-8 character kept although it is ESC/DEL/C0 (%s)" % m["api"], m["input"])
        return
    what = {"lost": "visible byte dropped", "leak": "non-visible byte kept", "F3": "forbidden control kept (F3 is not an open finding)",
            "panic": "panic", "geometry": "pieces not in-order/non-overlapping sub-slices", "output": "output is not a selection of the input allowed by the model",
            "chunk-dependence": "chunked result differs from one-shot result"}.get(cls, cls)
    chk.violation("%s: %s on input %s chunks %s: %s" % (m["api"], what, m["input"], m["chunks"], json.dumps(m["detail"])[:300]),
                  {"kind": "strip-case", "input": m["input"], "api": m["api"], "chunks": m["chunks"], "class": cls, "detail": m["detail"]})


def enum(chk, vh, mode, n, upto, firsts=None, classes=None):
    """classes: restrict which mismatch classes count for this property (None = all)"""
    wd = vlib.workdir(chk.prop + "-enum")
    f3_open = "AcceptCtlLeak" in chk.findings.open_flags(chk.prop)
    tot = {"cases": 0, "runs": 0, "nontrivial": 0, "f3": 0}

    def one(first):
        cfg = mk_cfg("spec/mc/MC_StripEnum.cfg", os.path.join(wd, "e-%s.cfg" % first), {"Mode": '"%s"' % mode, "N": n, "First": first})
        path = os.path.join(wd, "cases-%s.ndjson" % first)
        with open(path, "w") as f:
            r = vlib.tlc_run("spec/mc/MC_StripEnum.tla", cfg, "%s-enum-%s" % (chk.prop, first), workers=4 if firsts else 8,
                             payload_sink=lambda o: f.write(json.dumps(o, separators=(",", ":")) + "\n"), timeout=3000)
        if not r.ok:
            raise vlib.ToolError("MC_StripEnum failed: " + r.raw_tail[-2000:])
        out = vlib.run_harness(vh, ["strip-replay", path, upto], timeout=7200).stdout.strip().split("\n")
        os.remove(path)
        return r, out
    for r, out in ([one(999)] if not firsts else vlib.parallel(one, firsts, jobs=4)):
        chk.add_tlc(r)
        for l in out:
            o = json.loads(l)
            if "mismatch" in o:
                if classes is None or o["mismatch"]["class"] in classes or o["mismatch"]["class"] == "F3":
                    handle_mismatch(chk, o["mismatch"], f3_open)
            else:
                s = o["summary"]
                for k in tot:
                    tot[k] += s[k]
                by = {k: v for k, v in s["by"].items() if not k.startswith("F3/")}
                if classes is not None:
                    by = {k: v for k, v in by.items() if k.split("/")[0] in classes}
                if by and not chk.violations:
                    raise vlib.ToolError("harness counted mismatches that were not reported: %s" % by)
    chk.evaluations += tot["runs"]
    chk.nontrivial_count += tot["nontrivial"]
    chk.part("A_enum_%s_%d" % (mode, n), strings=tot["cases"], api_runs=tot["runs"], all_chunkings_up_to=upto,
             f3_hits=tot["f3"], exhaustive=True)
    if tot["cases"] == 0:
        raise vlib.ToolError("empty enumeration")
    return tot


def traces(chk, vh, shards, streams, target):
    wd = vlib.workdir(chk.prop + "-traces")
    flags = chk.findings.open_flags(chk.prop, module="Strip")
    jobs = []
    for s in range(shards):
        seed = chk.seed * 1000 + s
        path = os.path.join(wd, "s%d.ndjson" % s)
        out = vlib.run_harness(vh, ["strip-record", seed, streams, target, path]).stdout
        jobs.append((path, seed, json.loads(out.strip().split("\n")[-1])["summary"]))

    def val(j):
        path, seed, summ = j
        res_all = []
        ok, rej, res = vlib.tlc_trace(path, "Trace_Strip", "%s-tr-%d" % (chk.prop, seed))
        res_all.append(res)
        verdict = ("ok", None)
        if not ok:
            verdict = ("violation", rej)
            if flags:
                ok2, rej2, res2 = vlib.tlc_trace(path, "Trace_Strip", "%s-trl-%d" % (chk.prop, seed), consts={k: True for k in flags})
                res_all.append(res2)
                verdict = ("known", rej) if ok2 else ("violation", rej2)
        return verdict, res_all
    results = vlib.parallel(val, jobs, jobs=8)
    calls = 0
    for (path, seed, summ), (verdict, res_all) in zip(jobs, results):
        for r in res_all:
            chk.add_tlc(r)
        calls += summ["calls"]
        chk.traces += summ["streams"]
        kind, rej = verdict
        if kind == "known":
            ev = rej["event"]
            chk.known_finding("F3", "offending byte of a malformed UTF-8 character kept although it is ESC/DEL/C0 (trace seed %d, api %s)" % (seed, ev["api"]), ev["in"])
        elif kind == "violation":
            lines = open(path).read().split("\n")
            at = rej["reject_at"] - 1
            start = at
            while start > 0 and json.loads(lines[start])["new"] != 1:
                start -= 1
            evs = [json.loads(l) for l in lines[start:at + 1]]
            chk.violation("recorded %s trace (seed %d) rejected by Trace_Strip at call %d: in=%s pieces=%s"
                          % (evs[-1]["api"], seed, rej["reject_at"], evs[-1]["in"], evs[-1]["pcs"]),
                          {"kind": "strip-trace", "events": evs, "seed": seed})
            if sum(1 for v in chk.violations if "minimised" in v["what"]) == 0:
                flat = [b for e in evs for b in e["in"]]
                small = minimize_strip(vh, flat) if len(flat) <= 4000 else flat
                if len(small) < len(flat):
                    chk.violation("minimised input of that trace: %s (replay shows which API and chunking fail)" % small,
                                  {"kind": "strip-case", "input": small, "api": evs[-1]["api"], "chunks": [], "class": "minimised", "detail": {"from_len": len(flat)}})
    chk.evaluations += calls
    chk.nontrivial_count += sum(j[2]["streams"] for j in jobs)
    chk.part("B_traces", shards=shards, calls=calls, bytes=sum(j[2]["bytes"] for j in jobs))
    chk.sample({"trace_event": json.loads(open(jobs[0][0]).readline())})


def run(chk):
    vh = vlib.build_harness("vh")
    quick = chk.tier == "quick"
    chk.rule = ("A: every byte string of length N over the 38-byte class alphabet and every string of N code points over a 25-scalar "
                "alphabet, x every strip API x every chunking for short strings (non-trivial = requirement vector contains a byte that "
                "must be dropped or is optional). B: grammar streams x seeded chunkings (every stream contains escape sequences)")
    chk.assumptions = ["spec/Strip.tla reference = projection of VtParser (checked by MC_StripRef)",
                       "bytes of a malformed UTF-8 character are optional in the output except forbidden controls (statement is silent)"]
    product(chk, quick)
    enum(chk, vh, "bytes", 3, 4)
    enum(chk, vh, "str", 3, 4)
    if not quick:
        firsts = [0, 7, 9, 10, 13, 24, 27, 32, 48, 49, 58, 59, 60, 64, 80, 88, 91, 92, 93, 109, 127, 128, 143, 144, 156, 159, 160,
                  191, 192, 193, 194, 223, 224, 237, 240, 244, 245, 255]
        enum(chk, vh, "bytes", 4, 4, firsts=firsts)
        enum(chk, vh, "str", 4, 4)
    chk.sample({"enumerated_case": {"i": [27, 91, 10], "q": ["D", "D", "K"]}})
    if quick:
        traces(chk, vh, shards=8, streams=12, target=400)
    else:
        traces(chk, vh, shards=64, streams=24, target=1500)
    chk.exhaustive = False


def replay(obj):
    vh = vlib.build_harness("vh")
    wd = vlib.workdir("replay")
    if obj["kind"] == "strip-case":
        cfgp = mk_cfg("spec/mc/Eval_Strip.cfg", os.path.join(wd, "e.cfg"), {})
        inp = os.path.join(wd, "in.ndjson")
        vlib.write_lines(inp, [{"i": obj["input"]}])
        r = vlib.tlc_run("spec/mc/Eval_Strip.tla", cfgp, "replay-eval", workers=1, env={"INPUT": inp}, xss="1g")
        case = os.path.join(wd, "case.ndjson")
        vlib.write_lines(case, r.lines)
        out = vlib.run_harness(vh, ["strip-replay", case, 10]).stdout
        print(out)
        return 1 if '"violations":0' not in out.replace(" ", "") else 0
    if obj["kind"] == "strip-trace":
        print("events (input chunks and pieces as recorded):")
        for e in obj["events"]:
            print(json.dumps(e))
        p = os.path.join(wd, "t.ndjson")
        vlib.write_lines(p, obj["events"])
        ok, rej, _ = vlib.tlc_trace(p, "Trace_Strip", "replay-tr")
        print("recorded trace:", "accepted" if ok else "rejected at %s" % rej)
        # re-run the same chunks against the working tree
        chunks = [e["in"] for e in obj["events"]]
        flat = [b for c in chunks for b in c]
        inp = os.path.join(wd, "in.ndjson")
        vlib.write_lines(inp, [{"i": flat}])
        cfgp = mk_cfg("spec/mc/Eval_Strip.cfg", os.path.join(wd, "e.cfg"), {})
        r = vlib.tlc_run("spec/mc/Eval_Strip.tla", cfgp, "replay-eval", workers=1, env={"INPUT": inp}, xss="1g")
        case = os.path.join(wd, "case.ndjson")
        vlib.write_lines(case, r.lines)
        out = vlib.run_harness(vh, ["strip-replay", case, 10]).stdout
        print(out)
        return 1 if '"violations":0' not in out.replace(" ", "") else 0
    return 2


def selftest():
    vh = vlib.build_harness("vh")
    wd = vlib.workdir("c01-self")
    path = os.path.join(wd, "t.ndjson")
    vlib.run_harness(vh, ["strip-record", 3, 6, 300, path])
    ok, _, _ = vlib.tlc_trace(path, "Trace_Strip", "c01-self-a", consts={"AcceptCtlLeak": True})
    if not ok:
        return False
    lines = open(path).read().split("\n")
    idx = next(i for i, l in enumerate(lines) if '"pcs":[[' in l and i > 5)
    o = json.loads(lines[idx])
    o["pcs"][0][1] += 1 if o["pcs"][0][0] + o["pcs"][0][1] < len(o["in"]) else -1
    lines[idx] = json.dumps(o, separators=(",", ":"))
    open(path, "w").write("\n".join(lines))
    ok, rej, _ = vlib.tlc_trace(path, "Trace_Strip", "c01-self-b", consts={"AcceptCtlLeak": True})
    if ok or rej["reject_at"] != idx + 1:
        return False
    # flipped expectation must be reported by the replay driver
    case = os.path.join(wd, "case.ndjson")
    vlib.write_lines(case, [{"i": [27, 91, 49, 109, 65], "q": ["D", "D", "D", "K", "K"]}])
    out = vlib.run_harness(vh, ["strip-replay", case, 4]).stdout
    return '"mismatch"' in out
