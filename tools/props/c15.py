"""C15 - roff rendering preserves text, colours and font per segment.

 B  every to_roff(..).to_roff() document is validated by Trace_Roff: the input's segments come from the parser
    specification (style = strict SGR reading of the introducing sequence, text = what is printed until the next
    sequence); the document must consist, segment by segment, of `.gcolor`, `.fcolor`, the text block in the right font
    with roff escaping undone, and no other line may start with '.' or "'".  Single segment: all 17x17 colour pairs x
    effect subsets (thorough: all 256; quick: 7 per pair); multi-segment texts over an alphabet with leading dots,
    apostrophes, backslashes, hyphens, newlines, roff escape look-alikes and equal-style neighbours.
"""
import json, os, subprocess
import vlib

OFF = {"AcceptBoldDimExclusive": False}


def doc_bin():
    return vlib.build_harness("vh-doc", bin_name="vh-doc")


def run(chk):
    vd = doc_bin()
    quick = chk.tier == "quick"
    chk.rule = "single-segment exhaustive over 17x17 colour pairs x effect subsets; seeded multi-segment texts (non-trivial: every document)"
    chk.assumptions = ["domain as stated: segments introduced by one self-contained SGR sequence with 16-colour codes; segments without text are not rendered",
                       "256/RGB colours and styles accumulated over several sequences are outside the explored domain"]
    flags = dict(OFF)
    wd = vlib.workdir("c15")
    # canonical witness of F16
    for f in chk.findings.open_for("C15"):
        if f["id"] == "F16":
            w = bytes(f["witness"]["input"]).decode()
            out = subprocess.run([vd, "roff", json.dumps(f["witness"]["input"])], stdout=subprocess.PIPE, text=True, timeout=60).stdout
            p = os.path.join(wd, "w.ndjson")
            vlib.write_lines(p, [{"in": f["witness"]["input"], "doc": [ord(c) for c in out]}])
            ok, rej, res = vlib.tlc_trace(p, "Trace_Roff", "c15-w", consts=OFF)
            chk.add_tlc(res)
            if not ok:
                flags["AcceptBoldDimExclusive"] = True
                chk.known_finding("F16", f["what"], {"input": w, "document": out})
    shards = 8
    prefix = os.path.join(wd, "rf")
    r = subprocess.run([vd, "roff-record", str(chk.seed), "0" if quick else "1", str(shards), prefix], stdout=subprocess.PIPE, stderr=subprocess.PIPE, text=True, timeout=3600)
    if r.returncode != 0:
        raise vlib.ToolError("vh-doc roff-record failed: " + r.stderr[-1500:])
    summ = json.loads(r.stdout.strip().split("\n")[-1])["summary"]

    def val(k):
        return vlib.tlc_trace("%s-%d.ndjson" % (prefix, k), "Trace_Roff", "c15-%d" % k, consts=flags, timeout=20000)
    for ok, rej, res in vlib.parallel(val, range(shards), jobs=8):
        chk.add_tlc(res)
        if not ok:
            e = rej["event"]
            chk.violation("to_roff(%r) produced %r - rejected by Trace_Roff" % (bytes(e["in"]), "".join(chr(c) for c in e["doc"])),
                          {"kind": "roff-event", "event": e, "flags": flags})
    chk.traces += summ["events"]
    chk.evaluations += summ["events"]
    chk.nontrivial_count += summ["events"]
    chk.part("B_documents", events=summ["events"], single_segment_exhaustive=not quick)
    chk.sample({"document": json.loads(open(prefix + "-0.ndjson").readline())})
    chk.exhaustive = False


def replay(obj):
    vd = doc_bin()
    e = obj["event"]
    out = subprocess.run([vd, "roff", json.dumps(e["in"])], stdout=subprocess.PIPE, text=True, timeout=60).stdout
    print("input:", bytes(e["in"]))
    print("document now:", repr(out))
    wd = vlib.workdir("replay")
    p = os.path.join(wd, "e.ndjson")
    vlib.write_lines(p, [{"in": e["in"], "doc": [ord(c) for c in out]}])
    ok, rej, _ = vlib.tlc_trace(p, "Trace_Roff", "replay-c15", consts=obj.get("flags", OFF))
    print("working tree:", "accepted" if ok else "rejected")
    return 0 if ok else 1


def setup():
    doc_bin()


def selftest():
    wd = vlib.workdir("c15-self")
    p = os.path.join(wd, "e.ndjson")
    inp = list(b"\x1b[0;31mx")
    good = {"in": inp, "doc": [ord(c) for c in ".gcolor red\n.fcolor default\nx\n"]}
    bad = {"in": inp, "doc": [ord(c) for c in ".gcolor default\n.fcolor red\nx\n"]}
    vlib.write_lines(p, [good, bad])
    ok, rej, _ = vlib.tlc_trace(p, "Trace_Roff", "c15-self", consts=OFF)
    return (not ok) and rej["reject_at"] == 2
