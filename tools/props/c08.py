"""C08 - AutoStream modes: never strips, always-ansi forwards unchanged.

 S  MC_AutoStream: every sequence of up to Depth write-family calls over fragments that cut sequences and
    characters: the strip-mode design keeps exactly the reference's visible text wherever the calls cut.
 A  every such sequence, with the expected inner-writer content for strip and pass-through mode, replayed
    for the four choices over Vec<u8>, Box<dyn Write> and File (+ current_choice, to_adapted_string).
 B  seeded random operation mixes (write, write_all, write_vectored, write!, argument-less write!, flush)
    x four choices x fault scripts, every call validated by Trace_AutoStream (strip mode = StripStream's
    observational layer, pass-through = identity), into_inner compared with everything accepted.
"""
import json, os
import vlib
from props.c02 import mk_cfg
from props import c06


def run(chk):
    vh = vlib.build_harness("vh")
    quick = chk.tier == "quick"
    chk.rule = ("A: all op sequences up to Depth over 11 fragments x 4 ops + flush with a unique expected output (non-trivial: every "
                "sequence containing an escape or a cut character; counted = sequences whose strip and pass-through expectations differ). "
                "B: random op mixes x 4 choices x fault scripts")
    chk.assumptions = ["non-Windows platform: Always = AlwaysAnsi = pass-through", "Auto on a non-terminal with a pinned environment = Never"]
    wd = vlib.workdir("c08-a")
    depth = 3 if quick else 4
    cfg = mk_cfg("spec/mc/MC_AutoStream.cfg", os.path.join(wd, "a.cfg"), {"Depth": depth})
    shards = 1 if quick else 8
    files = [open(os.path.join(wd, "seq-%d.ndjson" % i), "w") for i in range(shards)]
    n = [0]

    def sink(o):
        files[n[0] % shards].write(json.dumps(o, separators=(",", ":")) + "\n")
        n[0] += 1
        if o["strip"] != o["pass"]:
            chk.nontrivial_count += 1
        if n[0] == 4000:
            chk.sample({"op_sequence": o})
    r = vlib.tlc_run("spec/mc/MC_AutoStream.tla", cfg, "c08-mc", workers=8, payload_sink=sink, timeout=6000, xmx="12g")
    for f in files:
        f.close()
    if not r.ok:
        raise vlib.ToolError("MC_AutoStream failed (%s):\n%s" % (r.violated, vlib.tlc_counterexample(r)))
    chk.add_tlc(r, "S_A_op_sequences_depth%d" % depth)
    runs = 0

    def rep(i):
        return vlib.run_harness(vh, ["auto-replay", os.path.join(wd, "seq-%d.ndjson" % i)], timeout=7200).stdout.strip().split("\n")
    for out in vlib.parallel(rep, range(shards), jobs=8):
        for l in out:
            o = json.loads(l)
            if "mismatch" in o:
                m = o["mismatch"]
                chk.violation("AutoStream(%s) over %s: ops %s delivered/reported %s, specification expects %s"
                              % (m["choice"], m.get("inner_kind"), json.dumps(m["ops"])[:200], json.dumps(m["observed"])[:200], json.dumps(m["expected"])[:200]),
                              {"kind": "auto-seq", "case": m})
            else:
                runs += o["summary"]["runs"]
    chk.evaluations += runs
    chk.traces += n[0]
    chk.part("A_replay", sequences=n[0], runs=runs, exhaustive=True)
    macros_part(chk, vh, os.path.join(wd, "seq-0.ndjson"))
    std_part(chk, vh, wd, shards)
    # B
    wd = vlib.workdir("c08-b")
    traces = []
    shards_b, runs_b, target = (8, 24, 300) if quick else (48, 60, 1500)
    events = 0
    for s in range(shards_b):
        tp = os.path.join(wd, "auto-%d.ndjson" % s)
        out = vlib.run_harness(vh, ["auto-record", chk.seed * 1000 + s, runs_b, target, tp]).stdout
        summ = json.loads(out.strip().split("\n")[-1])["summary"]
        events += summ["events"]
        chk.traces += summ["runs"]
        chk.nontrivial_count += summ["runs"]
        traces.append(tp)
    chk.evaluations += events
    chk.part("B_random", shards=shards_b, runs=shards_b * runs_b, calls_validated=events)
    c06.validate(chk, vh, traces, "seeded random AutoStream run", spec="Trace_AutoStream")
    chk.sample({"trace_event": json.loads(open(traces[0]).readline())})
    chk.exhaustive = False


def macros_part(chk, vh, cases_path):
    """anstream::panic! payload, anstream::print! and eprint! output for the TLC-generated texts, in stripping mode
    (the harness' stdout/stderr are pipes) and pass-through mode (CLICOLOR_FORCE)"""
    import subprocess
    sub = os.path.join(os.path.dirname(cases_path), "macro-cases.ndjson")
    lines = [l for l in open(cases_path) if l.strip()][::23][:1500]
    open(sub, "w").write("".join(lines))
    cases = [json.loads(l) for l in lines]
    texts = []
    for c in cases:
        try:
            bytes(b for o in c["ops"] for b in o[1]).decode()
            texts.append(c)
        except UnicodeDecodeError:
            pass
    base_env = {k: v for k, v in os.environ.items() if k not in ("NO_COLOR", "CLICOLOR", "CLICOLOR_FORCE", "CI")}
    n = 0
    for mode, env in (("strip", {}), ("pass", {"CLICOLOR_FORCE": "1"})):
        e = dict(base_env); e.update(env)
        r = subprocess.run([vh, "macro-replay", sub, "panic"], stdout=subprocess.PIPE, stderr=subprocess.PIPE, env=e, timeout=600)
        if r.returncode != 0:
            raise vlib.ToolError("macro-replay panic failed: " + r.stderr.decode()[-600:])
        res = json.loads(r.stdout.decode().strip().split("\n")[-1])["results"]
        for x in res:
            n += 1
            if x["payload"] != x[mode]:
                chk.violation("anstream::panic! payload in %s mode: %r, specification expects %r" % (mode, bytes(x["payload"]), bytes(x[mode])),
                              {"kind": "macro", "what": "panic", "mode": mode, "observed": x["payload"], "expected": x[mode]})
        for what, stream in (("print", "stdout"), ("eprint", "stderr")):
            r = subprocess.run([vh, "macro-replay", sub, what], stdout=subprocess.PIPE, stderr=subprocess.PIPE, env=e, timeout=600)
            if r.returncode != 0:
                raise vlib.ToolError("macro-replay %s failed" % what)
            data = r.stdout if stream == "stdout" else r.stderr
            sep = b"\n@@SEP@@\n" if what == "print" else b"\n@@SEP@@\n"
            parts = data.split(sep)[:-1]
            if len(parts) != len(texts):
                raise vlib.ToolError("macro-replay %s: %d outputs for %d texts" % (what, len(parts), len(texts)))
            for c, got in zip(texts, parts):
                n += 1
                exp = bytes(c[mode])
                if got != exp:
                    chk.violation("anstream::%s! in %s mode wrote %r, specification expects %r" % (what, mode, got, exp),
                                  {"kind": "macro", "what": what, "mode": mode, "observed": list(got), "expected": list(exp)})
    chk.evaluations += n
    chk.part("A_macros", calls=n, texts=len(texts))


def std_part(chk, vh, wd, shards):
    """TLC-generated operation sequences that contain `lock`, on the REAL standard streams (AutoStream<Stdout|Stderr>,
    pipes read here): the locked stream must continue with the mode and the carried scanner state of the unlocked one."""
    import subprocess
    cases = []
    for i in range(shards):
        for l in open(os.path.join(wd, "seq-%d.ndjson" % i)):
            if '"lock"' in l:
                cases.append(l)
    if len(cases) > 6000:
        cases = cases[::len(cases) // 6000 + 1]
    sub = os.path.join(wd, "std-cases.ndjson")
    open(sub, "w").write("".join(cases))
    objs = [json.loads(l) for l in cases]
    base_env = {k: v for k, v in os.environ.items() if k not in ("NO_COLOR", "CLICOLOR", "CLICOLOR_FORCE", "CI")}
    n = 0
    for stream in ("stdout", "stderr"):
        for choice, key in (("Never", "strip"), ("AlwaysAnsi", "pass")):
            r = subprocess.run([vh, "std-replay", sub, stream, choice], stdout=subprocess.PIPE, stderr=subprocess.PIPE, env=base_env, timeout=1200)
            if r.returncode != 0:
                raise vlib.ToolError("std-replay %s %s failed: %s" % (stream, choice, (r.stderr if stream == "stdout" else r.stdout).decode(errors="replace")[-600:]))
            data = r.stdout if stream == "stdout" else r.stderr
            parts = data.split(b"\n@@SEP@@\n")[:-1]
            if len(parts) != len(objs):
                raise vlib.ToolError("std-replay %s %s: %d outputs for %d cases" % (stream, choice, len(parts), len(objs)))
            for c, got in zip(objs, parts):
                n += 1
                exp = bytes(c[key])
                if got != exp:
                    chk.violation("AutoStream<%s>(%s) with lock(): ops %s wrote %r, specification expects %r" % (stream, choice, json.dumps(c["ops"])[:200], got, exp),
                                  {"kind": "std-lock", "stream": stream, "choice": choice, "ops": c["ops"], "observed": list(got), "expected": list(exp)})
    chk.evaluations += n
    chk.traces += len(objs)
    chk.part("A_std_streams_with_lock", sequences=len(objs), runs=n)


def replay(obj):
    if obj.get("kind") == "std-lock":
        import subprocess
        vh = vlib.build_harness("vh")
        wd = vlib.workdir("replay")
        p = os.path.join(wd, "c.ndjson")
        vlib.write_lines(p, [{"ops": obj["ops"]}])
        r = subprocess.run([vh, "std-replay", p, obj["stream"], obj["choice"]], stdout=subprocess.PIPE, stderr=subprocess.PIPE)
        data = (r.stdout if obj["stream"] == "stdout" else r.stderr).split(b"\n@@SEP@@\n")[0]
        print("ops", json.dumps(obj["ops"]), "\nwrote   ", data, "\nexpected", bytes(obj["expected"]))
        return 0 if data == bytes(obj["expected"]) else 1
    if obj.get("kind") == "macro":
        print(json.dumps(obj)[:2000])
        return 1
    if obj.get("kind") == "auto-seq":
        vh = vlib.build_harness("vh")
        wd = vlib.workdir("replay")
        p = os.path.join(wd, "c.ndjson")
        m = obj["case"]
        exp = m["expected"]["delivered"]
        vlib.write_lines(p, [{"ops": m["ops"], "strip": exp, "pass": exp}])
        out = vlib.run_harness(vh, ["auto-replay", p]).stdout
        print(out)
        return 1 if '"mismatch"' in out else 0
    return c06.replay(obj)


def selftest():
    vh = vlib.build_harness("vh")
    wd = vlib.workdir("c08-self")
    tp = os.path.join(wd, "t.ndjson")
    vlib.run_harness(vh, ["auto-record", 5, 8, 200, tp])
    lenient = {"AcceptCtlLeak": True, "AcceptErrAdvance": True}
    ok, _, _ = vlib.tlc_trace(tp, "Trace_AutoStream", "c08-self-a", consts=lenient)
    if not ok:
        return False
    lines = open(tp).read().split("\n")
    idx = next(i for i, l in enumerate(lines) if '"op":"into_inner"' in l and len(json.loads(l)["buf"]) > 2)
    o = json.loads(lines[idx]); o["buf"] = o["buf"][:-1]
    lines[idx] = json.dumps(o, separators=(",", ":"))
    open(tp, "w").write("\n".join(lines))
    ok, rej, _ = vlib.tlc_trace(tp, "Trace_AutoStream", "c08-self-b", consts=lenient)
    if ok or rej["reject_at"] != idx + 1:
        return False
    p = os.path.join(wd, "c.ndjson")
    vlib.write_lines(p, [{"ops": [["write", [27, 91, 49, 109, 97]]], "strip": [97, 97], "pass": [27, 91, 49, 109, 97]}])
    return '"mismatch"' in vlib.run_harness(vh, ["auto-replay", p]).stdout
