"""C19 - output of one print call is never interleaved with another thread's; the global choice is an atomic register.

 S  MC_PrintLock: all schedules of 3 threads x 2 calls x 3 fragments: with the lock taken per call the output is a
    concatenation of whole records; the PerFragment variant (what a non-forwarded write_fmt / write_all does) must give an
    interleaving counterexample.
 B  a child process with 2..16 threads issues multi-fragment print!/println!/write!/write_all calls (escape sequences
    split across fragments, buffers longer than std's line buffer) through anstream::stdout()/stderr() into a pipe whose
    capacity is shrunk and which is read slowly; the byte stream is cut into fragments and validated by Trace_PrintLock,
    in stripping (pipe = non-terminal) and pass-through (CLICOLOR_FORCE) mode.  Threads reading/writing the global
    ColorChoice log invocation/response with a SeqCst sequence number; TLC searches a linearization per round
    (Trace_AtomicChoice; reaching the end of the trace is the acceptance signal).
"""
import fcntl, json, os, re, subprocess, time
import vlib
from props.c02 import mk_cfg

TOKEN = re.compile(rb"<(\d+),(\d+),(\d+),(\d+)\|[^<>]*>")
BETWEEN_OK = re.compile(rb"(?:\x1b\[[0-9;]*m?|[0-9;]*m|\n|\xac|\x07|\x08)*")


def run_child(vh, threads, calls, stream, env_extra):
    rfd, wfd = os.pipe()
    try:
        fcntl.fcntl(wfd, 1031, 4096)  # F_SETPIPE_SZ
    except OSError:
        pass
    env = {k: v for k, v in os.environ.items() if k not in ("NO_COLOR", "CLICOLOR", "CLICOLOR_FORCE", "CI")}
    env.update(env_extra)
    kw = {"stdout": wfd, "stderr": subprocess.DEVNULL} if stream == "stdout" else {"stdout": subprocess.DEVNULL, "stderr": wfd}
    p = subprocess.Popen([vh, "print-child", str(threads), str(calls), stream], env=env, **kw)
    os.close(wfd)
    data = bytearray()
    t0 = time.time()
    while True:
        b = os.read(rfd, 1536)
        if not b:
            break
        data += b
        if len(data) < 200000:
            time.sleep(0.0003)       # a slow reader: writers block mid-record
        if time.time() - t0 > 300:
            p.kill()
            raise vlib.ToolError("print-child timed out")
    os.close(rfd)
    if p.wait() != 0:
        raise vlib.ToolError("print-child exited with %d" % p.returncode)
    return bytes(data)


def tokenize(data):
    evs = []
    pos = 0
    for m in TOKEN.finditer(data):
        gap = data[pos:m.start()]
        if not BETWEEN_OK.fullmatch(gap):
            evs.append({"t": 0, "c": 0, "f": 0, "n": 0})
        t, c, f, n = (int(m.group(i)) for i in (1, 2, 3, 4))
        evs.append({"t": t, "c": c, "f": f, "n": n})
        pos = m.end()
        if n == 2 and f == 1 and data[pos:pos + 2] == b"\xe2\x82":
            # the two leading bytes of a character that the call's buffer ends with are the call's second fragment (if they are
            # held back, the next fragment arrives while this call is still open)
            evs.append({"t": t, "c": c, "f": 2, "n": 2})
            pos += 2
        if n == 2 and f == 1 and data[pos:pos + 2] == b"\x1b[":
            # pass-through mode: the opening bytes of a sequence that the call's buffer ends with are the call's second fragment
            # (what follows is the next call's "0m" or, legitimately, another thread's record; only the two-fragment records end so)
            evs.append({"t": t, "c": c, "f": 2, "n": 2})
            pos += 2
        if n == 4 and f == 3 and data[pos:pos + 1] == b"\n":
            # the call's own newline, directly behind its third fragment, is its fourth fragment (if it is not there,
            # the next fragment arrives while the call is still open and the trace is rejected there)
            evs.append({"t": t, "c": c, "f": 4, "n": 4})
            pos += 1
    if not BETWEEN_OK.fullmatch(data[pos:]):
        evs.append({"t": 0, "c": 0, "f": 0, "n": 0})
    return evs


def print_part(chk, vh, quick):
    wd = vlib.workdir("c19-print")
    jobs = []
    configs = [(8, "stdout", {}), (8, "stdout", {"CLICOLOR_FORCE": "1"}), (4, "stderr", {}), (16, "stderr", {"CLICOLOR_FORCE": "1"})]
    if not quick:
        configs = configs * 3 + [(2, "stdout", {}), (16, "stdout", {})]
    for k, (threads, stream, env) in enumerate(configs):
        calls = 150 if quick else 600
        data = run_child(vh, threads, calls, stream, env)
        evs = tokenize(data)
        def kind(t, c):
            return 13 if t % 4 == 0 and c % 2 == 0 else (c + t) % 17
        expect = sum(4 if kind(t, c) in (0, 1, 2, 4) else 5 if kind(t, c) == 10 else (5 if env else 4) if kind(t, c) == 11 else 3
                     for t in range(1, threads + 1) for c in range(1, calls + 1))
        mode = "pass-through" if env else "strip"
        if env and b"\x1b[" not in data:
            raise vlib.ToolError("pass-through mode expected but no escape sequence reached the pipe")
        if not env and b"\x1b" in data:
            raise vlib.ToolError("strip mode expected but an escape byte reached the pipe")
        p = os.path.join(wd, "p%d.ndjson" % k)
        vlib.write_lines(p, evs)
        jobs.append((p, threads, stream, mode, len(evs), expect, data))

    def val(j):
        return vlib.tlc_trace(j[0], "Trace_PrintLock", "c19-" + os.path.basename(j[0]), timeout=3000)
    for j, (ok, rej, res) in zip(jobs, vlib.parallel(val, jobs, jobs=4)):
        p, threads, stream, mode, n, expect, data = j
        chk.add_tlc(res)
        chk.traces += 1
        chk.evaluations += n
        chk.nontrivial_count += n // 3
        if not ok:
            at = rej["reject_at"]
            evs = [json.loads(l) for l in open(p).read().split("\n")[max(0, at - 4):at]]
            chk.violation("%d threads on %s (%s mode): fragment %d of the stream breaks a record: ...%s" % (threads, stream, mode, at, evs),
                          {"kind": "print-stream", "threads": threads, "stream": stream, "mode": mode, "around": evs, "reject_at": at})
        elif n != expect:
            chk.violation("%d threads on %s (%s mode): %d fragments arrived, %d were printed" % (threads, stream, mode, n, expect),
                          {"kind": "print-stream", "threads": threads, "stream": stream, "mode": mode, "fragments": n, "expected": expect})
    chk.part("B_print_streams", runs=len(jobs), fragments=sum(j[4] for j in jobs))
    chk.sample({"fragments": [json.loads(l) for l in open(jobs[0][0]).read().split("\n")[:6]]})


def choice_part(chk, vh, quick):
    wd = vlib.workdir("c19-choice")
    jobs = []
    plans = [(4, 12, 3, ""), (8, 8, 2, ""), (2, 12, 6, ""), (4, 2, 400, "stress"), (8, 2, 250, "stress"), (16, 1, 150, "stress"),
             (4, 2, 400, "stress0"), (8, 2, 250, "stress0")]
    if not quick:
        plans = [(4, 60, 3, ""), (8, 40, 2, ""), (2, 60, 6, ""), (16, 30, 1, ""), (3, 60, 4, "")] + [(4, 4, 800, "stress"), (8, 4, 500, "stress"), (16, 4, 300, "stress"), (2, 4, 1500, "stress"), (4, 4, 800, "stress0"), (8, 4, 500, "stress0")] * 2
    for k, (threads, rounds, ops, mode) in enumerate(plans):
        r = subprocess.run([vh, "choice-child", str(threads), str(rounds), str(ops), str(chk.seed + k)] + ([mode] if mode else []), stdout=subprocess.PIPE, stderr=subprocess.PIPE, text=True, timeout=300)
        if r.returncode != 0:
            raise vlib.ToolError("choice-child failed: " + r.stderr[-800:])
        p = os.path.join(wd, "h%d.ndjson" % k)
        open(p, "w").write(r.stdout)
        if '"kind":"P"' in r.stdout:
            chk.violation("a read or write of the global ColorChoice panicked while %d threads were using it (an operation of the register never completed)" % threads,
                          {"kind": "choice-panic", "threads": threads, "rounds": rounds, "events": [json.loads(l) for l in r.stdout.split("\n") if '"kind":"P"' in l][:10]})
            continue
        jobs.append((p, threads, rounds, ops, r.stdout.count("\n")))

    def search(p, name):
        res = vlib.tlc_run("spec/trace/Trace_AtomicChoice.tla", "spec/trace/Trace_AtomicChoice.cfg", name, workers=1, timeout=1200, xmx="3g", xss="1g",
                           dfs=True, env={"TRACE": p})
        return res

    def val(j):
        return search(j[0], "c19-" + os.path.basename(j[0]))
    for j, res in zip(jobs, vlib.parallel(val, jobs, jobs=4)):
        p, threads, rounds, ops, n = j
        chk.add_tlc(res)
        chk.traces += rounds
        chk.evaluations += n
        chk.nontrivial_count += rounds
        if res.violated == "NotDone":
            continue          # a linearization of the whole history was found
        if res.ok:
            chk.violation("global ColorChoice history of %d threads x %d rounds has no linearization (atomic register)" % (threads, rounds),
                          {"kind": "choice-history", "history": [json.loads(l) for l in open(p) if l.strip()]})
        else:
            raise vlib.ToolError("linearization search ended abnormally:\n" + res.raw_tail[-1500:])
    chk.part("B_register_histories", histories=len(jobs), events=sum(j[4] for j in jobs))
    chk.sample({"history_prefix": [json.loads(l) for l in open(jobs[0][0]).read().split("\n")[:8]]})


def run(chk):
    vh = vlib.build_harness("vh")
    quick = chk.tier == "quick"
    chk.rule = ("S: all schedules of 3 threads x 2 calls x 3 fragments. B: observed schedules of 2..16 real threads x hundreds of 3-fragment calls per "
                "stream and mode (non-trivial: every call); register histories of 2..16 threads, one linearization search per round")
    chk.assumptions = ["TLC explores all schedules of the MODEL; the real threads show only the schedules the OS produces",
                       "no hook inside std's stdout lock: the pipe content is the observation"]
    wd = vlib.workdir("c19-s")
    for pf, expect in ((False, None), (True, "NoInterleave")):
        cfg = mk_cfg("spec/mc/MC_PrintLock.cfg", os.path.join(wd, "p.cfg"), {"PerFragment": pf})
        r = vlib.tlc_run("spec/mc/MC_PrintLock.tla", cfg, "c19-mc", workers=8, timeout=1200)
        if expect is None and not r.ok:
            raise vlib.ToolError("MC_PrintLock failed (%s):\n%s" % (r.violated, vlib.tlc_counterexample(r)))
        if expect and r.violated != expect:
            raise vlib.ToolError("self-test failed: per-fragment locking produced no interleaving counterexample")
        chk.add_tlc(r, "S_schedules" + ("_per_fragment_counterexample" if pf else ""))
    # the same safety property for ANY number of threads, calls and fragments: TLAPS proof of an inductive invariant
    st, nobl, dt, tail = vlib.tlapm_check("spec/proofs/PrintLockProof.tla", "printlock", timeout=1200)
    if st == "failed" or st == "tool":
        raise vlib.ToolError("tlapm did not re-prove spec/proofs/PrintLockProof.tla (%s):\n%s" % (st, tail))
    chk.part("S_unbounded_proof_tlaps", module="spec/proofs/PrintLockProof.tla", theorem="Spec => []NoInterleave", status=st, obligations=nobl, seconds=round(dt, 1))
    print_part(chk, vh, quick)
    choice_part(chk, vh, quick)
    chk.exhaustive = False


def replay(obj):
    print(json.dumps(obj)[:3000])
    if obj["kind"] == "choice-panic":
        return 1
    if obj["kind"] == "choice-history":
        wd = vlib.workdir("replay")
        p = os.path.join(wd, "h.ndjson")
        vlib.write_lines(p, obj["history"])
        res = vlib.tlc_run("spec/trace/Trace_AtomicChoice.tla", "spec/trace/Trace_AtomicChoice.cfg", "replay-c19", workers=1, dfs=True, xss="1g", env={"TRACE": p})
        print("recorded history:", "linearizable" if res.violated == "NotDone" else "NOT linearizable")
        return 0 if res.violated == "NotDone" else 1
    return 1


def selftest():
    wd = vlib.workdir("c19-self")
    p = os.path.join(wd, "p.ndjson")
    good = [{"t": 1, "c": 1, "f": 1, "n": 3}, {"t": 1, "c": 1, "f": 2, "n": 3}, {"t": 1, "c": 1, "f": 3, "n": 3}, {"t": 2, "c": 1, "f": 1, "n": 3}]
    bad = [{"t": 1, "c": 1, "f": 1, "n": 3}, {"t": 2, "c": 1, "f": 1, "n": 3}]
    vlib.write_lines(p, good)
    ok, _, _ = vlib.tlc_trace(p, "Trace_PrintLock", "c19-self-a")
    vlib.write_lines(p, bad)
    ok2, rej, _ = vlib.tlc_trace(p, "Trace_PrintLock", "c19-self-b")
    h = os.path.join(wd, "h.ndjson")
    # a read returning a value nobody wrote is not linearizable
    vlib.write_lines(h, [{"e": "start", "id": 0, "kind": "w", "val": 1}, {"e": "inv", "id": 1, "kind": "w", "val": 2}, {"e": "res", "id": 1, "kind": "w", "val": 2},
                         {"e": "inv", "id": 2, "kind": "r", "val": 3}, {"e": "res", "id": 2, "kind": "r", "val": 3}])
    res = vlib.tlc_run("spec/trace/Trace_AtomicChoice.tla", "spec/trace/Trace_AtomicChoice.cfg", "c19-self-c", workers=1, dfs=True, xss="1g", env={"TRACE": h})
    return ok and (not ok2) and rej["reject_at"] == 2 and res.ok and res.violated is None
