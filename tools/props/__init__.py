ALL = ["C02"]
