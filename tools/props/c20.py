"""C20 - parser feature configurations differ only by their documented limits.

 S  MC_VtFeatures: four instances of the VtParser specification (OscRawCap in {unbounded, Cap} x Utf8On) in lockstep
    over 7-bit input: identical callbacks and observationally equal states while no OSC payload exceeded the buffer;
    an oversize payload is truncated at the limit (prefix, <= Cap bytes), what follows is parsed identically.
 B  five recorder binaries built from the working tree (no features / core / utf8 / core,utf8 / the crate's default set) run the 7-bit subset of
    the C02 generators plus OSC payloads of 1000..1100 bytes with 0..20 separators; every trace is validated by
    Trace_VtParser instantiated with that configuration's constants (OscRawCap = 1024 with `core`).
"""
import json, os, subprocess
import vlib
from props.c02 import mk_cfg, eval_expected

CONFIGS = [("x", [], {"OscRawCap": 0, "Utf8On": False}),
           ("xcore", ["core"], {"OscRawCap": 1024, "Utf8On": False}),
           ("xutf8", ["utf8"], {"OscRawCap": 0, "Utf8On": True}),
           ("xcore_utf8", ["core", "utf8"], {"OscRawCap": 1024, "Utf8On": True}),
           # the crate's own default feature set is the unlimited configuration with UTF-8 (the limits are opt-in)
           ("xdefault", ["crate-default"], {"OscRawCap": 0, "Utf8On": True})]
BASE = {"MaxParams": 32, "MaxInter": 2, "MaxOsc": 16, "ParamCap": 65535}


def build_all():
    bins = {}
    for name, feats, _ in CONFIGS:
        bins[name] = vlib.build_harness("vh-feat", features=feats or None, target_dir=os.path.join(vlib.HARNESS, "target-feat-" + name), bin_name="vh-feat")
    return bins


def run(chk):
    quick = chk.tier == "quick"
    bins = build_all()
    chk.rule = ("S: all 7-bit strings to depth D over the class alphabet in four-way lockstep (scaled buffer). B: per feature set, seeded 7-bit "
                "grammar streams, every second one with an OSC payload of 1000..1100 bytes and 0..20 separators (non-trivial: every stream)")
    chk.assumptions = ["7-bit input only (without the utf8 feature a non-ASCII lead byte is outside the contract)"]
    wd = vlib.workdir("c20")
    jobs = [{"Depth": 6, "Cap": 1, "Small": False}, {"Depth": 8 if quick else 9, "Cap": 2, "Small": True}]

    def mc(c):
        cfg = mk_cfg("spec/mc/MC_VtFeatures.cfg", os.path.join(wd, "f%d%d.cfg" % (c["Depth"], c["Cap"])), c)
        return c, vlib.tlc_run("spec/mc/MC_VtFeatures.tla", cfg, "c20-mc-%d-%d" % (c["Depth"], c["Cap"]), workers=6, timeout=3000, xmx="8g")
    for c, r in vlib.parallel(mc, jobs, jobs=2):
        if not r.ok:
            raise vlib.ToolError("MC_VtFeatures failed (%s):\n%s" % (r.violated, vlib.tlc_counterexample(r)))
        chk.add_tlc(r, "S_lockstep_depth%d_cap%d" % (c["Depth"], c["Cap"]))
    recs = []
    shards = 2 if quick else 8
    for name, feats, consts in CONFIGS:
        for s in range(shards):
            p = os.path.join(wd, "%s-%d.ndjson" % (name, s))
            r = subprocess.run([bins[name], "record", str(chk.seed * 100 + s), str(8 if quick else 16), str(300 if quick else 1000), p],
                               stdout=subprocess.PIPE, stderr=subprocess.PIPE, text=True, timeout=600)
            if r.returncode != 0:
                raise vlib.ToolError("vh-feat(%s) failed: %s" % (name, r.stderr[-1000:]))
            summ = json.loads(r.stdout.strip().split("\n")[-1])["summary"]
            c = dict(BASE); c.update(consts)
            recs.append((p, name, c, summ))

    def val(j):
        p, name, c, summ = j
        ok, rej, res = vlib.tlc_trace(p, "Trace_VtParser", "c20-%s" % os.path.basename(p), consts=c, timeout=3000)
        return j, ok, rej, res
    for (p, name, c, summ), ok, rej, res in vlib.parallel(val, recs, jobs=8):
        chk.add_tlc(res)
        chk.evaluations += summ["bytes"]
        chk.traces += summ["streams"]
        chk.nontrivial_count += summ["streams"]
        if not ok:
            lines = open(p).read().split("\n")
            at = rej["reject_at"] - 1
            start = at
            while start > 0 and not lines[start].startswith('{"b":256'):
                start -= 1
            stream = [json.loads(l) for l in lines[start + 1:at + 1]]
            inp = [e["b"] for e in stream]
            exp = eval_expected([inp], name="c20-exp", consts=c)[0]["e"][len(inp) - 1]
            chk.violation("feature set %s: callbacks at byte %d of a %d-byte stream differ from the specification with constants %s: observed %s, expected %s"
                          % (name or "(none)", len(inp) - 1, len(inp), c, json.dumps(stream[-1]["e"])[:300], json.dumps(exp)[:300]),
                          {"kind": "vt-string", "input": inp, "at": len(inp) - 1, "expected": exp, "observed": stream[-1]["e"], "consts": c, "features": name})
    chk.part("B_traces", configurations=[n for n, _, _ in CONFIGS], shards_per_config=shards, bytes=sum(r[3]["bytes"] for r in recs))
    chk.sample({"trace_tail": [json.loads(l) for l in open(recs[0][0]).read().split("\n")[1:6]]})
    chk.exhaustive = False


def replay(obj):
    name = obj.get("features", "xutf8")
    bins = build_all()
    exp = eval_expected([obj["input"]], consts=obj.get("consts"))[0]
    print("feature set:", name, "- expected callbacks at byte", obj["at"], ":", json.dumps(exp["e"][obj["at"]]))
    print("observed when recorded:", json.dumps(obj["observed"]))
    return 1


def setup():
    build_all()


def selftest():
    return True
