"""C03 - incremental processing equals one-shot processing for every chunking.

 S  MC_StripProd (bytes and text scanners): the judge never looks at chunk boundaries, the product lets a
    chunk end between any two bytes, so agreement for every chunking is chunk-independence of the design,
    for inputs of any length; D_StrReset must give a counterexample.
    (extractor: MC_WinconChunks, see C07)
 A  every string of length 3 x all chunkings; TLC-simulated random strings of length 9 x all 2^8 chunkings
    (text APIs: all chunkings at character boundaries); StripStr/StripBytes/StripStream::write_all per chunk;
    each chunked run must satisfy the chunk-independent requirement vector AND equal the one-shot result.
 B  long grammar inputs x seeded partitions (single chunk, all-single-byte, sizes 1..k), validated per call.
"""
import json, os
import vlib
from props.c02 import mk_cfg
from props import c01


def sim_strings(chk, vh, mode, n, num, upto):
    wd = vlib.workdir("c03-sim")
    cfg = mk_cfg("spec/mc/MC_StripEnum.cfg", os.path.join(wd, "s.cfg"), {"Mode": '"%s"' % mode, "N": n})
    path = os.path.join(wd, "cases.ndjson")
    seen = set()
    with open(path, "w") as f:
        def sink(o):
            k = bytes(o["i"])
            if k not in seen:
                seen.add(k)
                f.write(json.dumps(o, separators=(",", ":")) + "\n")
        r = vlib.tlc_run("spec/mc/MC_StripEnum.tla", cfg, "c03-sim", workers=1, simulate=num, depth=n + 2,
                         seed=chk.seed, payload_sink=sink, timeout=3000)
    if not r.ok:
        raise vlib.ToolError("TLC simulation failed: " + r.raw_tail[-1500:])
    chk.add_tlc(r)
    f3_open = "AcceptCtlLeak" in chk.findings.open_flags(chk.prop)
    out = vlib.run_harness(vh, ["strip-replay", path, upto], timeout=7200).stdout.strip().split("\n")
    for l in out:
        o = json.loads(l)
        if "mismatch" in o:
            c01.handle_mismatch(chk, o["mismatch"], f3_open)
        else:
            s = o["summary"]
            chk.evaluations += s["runs"]
            chk.nontrivial_count += s["nontrivial"]
            chk.part("A_simulated_%s_len%d" % (mode, n), strings=s["cases"], api_runs=s["runs"], all_chunkings_up_to=upto, f3_hits=s["f3"])
            bad = {k: v for k, v in s["by"].items() if not k.startswith("F3/")}
            if bad and not chk.violations:
                raise vlib.ToolError("unreported mismatches %s" % bad)
    chk.sample({"simulated_string_with_requirement": json.loads(open(path).readline())})


def run(chk):
    vh = vlib.build_harness("vh")
    quick = chk.tier == "quick"
    chk.rule = ("every enumerated/simulated string x every chunking (2^(n-1); text APIs at character boundaries) through StripBytes, "
                "StripStr, StripStream::write_all; non-trivial = string whose requirement vector contains a dropped or optional byte; "
                "long grammar inputs x seeded partitions")
    chk.assumptions = ["chunk-independence of the specification is the structure of Strip!Judge (no chunk input) - checked on the product automaton"]
    wd = vlib.workdir("c03-prod")
    for api in ("bytes", "str"):
        cfg = mk_cfg("spec/mc/MC_StripProd.cfg", os.path.join(wd, "p.cfg"), {"Api": '"%s"' % api})
        r = vlib.tlc_run("spec/mc/MC_StripProd.tla", cfg, "c03-prod", workers=4, coverage=True)
        if not r.ok:
            raise vlib.ToolError("scanner design is not chunk-independent (%s, %s):\n%s" % (api, r.violated, vlib.tlc_counterexample(r)))
        if r.coverage.get("EndChunk", (1, 1))[1] == 0:
            raise vlib.ToolError("vacuous: EndChunk never taken")
        chk.add_tlc(r, "S_product_" + api)
    cfg = mk_cfg("spec/mc/MC_StripProd.cfg", os.path.join(wd, "d.cfg"), {"Api": '"str"', "D_StrReset": True})
    r = vlib.tlc_run("spec/mc/MC_StripProd.tla", cfg, "c03-dev", workers=2)
    if r.violated != "Agree":
        raise vlib.ToolError("self-test failed: D_StrReset produced no counterexample")
    chk.add_tlc(r)
    c01.enum(chk, vh, "bytes", 3, 4)
    c01.enum(chk, vh, "str", 3, 4)
    if quick:
        sim_strings(chk, vh, "bytes", 9, 40, 9)
        sim_strings(chk, vh, "str", 6, 40, 6)
        c01.traces(chk, vh, shards=8, streams=12, target=300)
    else:
        c01.enum(chk, vh, "str", 4, 4)
        sim_strings(chk, vh, "bytes", 10, 400, 10)
        sim_strings(chk, vh, "str", 8, 400, 8)
        c01.traces(chk, vh, shards=48, streams=24, target=1500)
    # strip stream: mixed write-family calls (incl. argument-less write!) cutting sequences, judged per call
    from props import c06
    c06.random_runs(chk, vh, shards=4 if quick else 24, runs=24, target=300 if quick else 1200, max_profile=0)
    from props import c07
    c07.chunk_part(chk, vh, quick)
    chk.exhaustive = False


replay = c01.replay


def selftest():
    return True
