#!/usr/bin/env python3
"""Observation tooling for C14: parse an SVG produced by anstyle-svg with expat (an independent XML parser) and dump
what the specification talks about - NOT an oracle: well-formedness is expat's verdict, everything else is judged by TLC.

For every line-level <tspan> under <text>: y, and for every span its text (code points) and what its classes MEAN
according to the document's own style sheet:
   fill      colour of a `fill:` declaration            (foreground / background block)
   ulcolor   colour of a `text-decoration-color:`
   eff       features of the other declarations: BOLD ITALIC UNDERLINE DOUBLE_UNDERLINE CURLY_UNDERLINE DOTTED_UNDERLINE
             DASHED_UNDERLINE STRIKETHROUGH DIMMED HIDDEN
   undefined classes used on the span that the style sheet does not define
"""
import json, re, sys
import xml.parsers.expat

SVG_NS = "http://www.w3.org/2000/svg"


def parse_css(text):
    rules = {}
    for m in re.finditer(r"\.([A-Za-z0-9_-]+)\s*\{([^}]*)\}", text):
        decls = {}
        for d in m.group(2).split(";"):
            if ":" in d:
                k, v = d.split(":", 1)
                decls[k.strip()] = v.strip()
        rules.setdefault(m.group(1), {}).update(decls)
    return rules


def rgb(v):
    m = re.fullmatch(r"#([0-9A-Fa-f]{6})", v.strip())
    if not m:
        return None
    h = m.group(1)
    return [int(h[0:2], 16), int(h[2:4], 16), int(h[4:6], 16)]


def meaning(classes, rules):
    out = {"fill": None, "ulcolor": None, "eff": [], "undefined": []}
    eff = set()
    for c in classes:
        if c not in rules:
            out["undefined"].append(c)
            continue
        d = rules[c]
        if "fill" in d:
            out["fill"] = rgb(d["fill"])
        if "text-decoration-color" in d:
            out["ulcolor"] = rgb(d["text-decoration-color"])
        else:
            line = d.get("text-decoration-line")
            if line == "underline":
                style = d.get("text-decoration-style")
                eff.add({None: "UNDERLINE", "double": "DOUBLE_UNDERLINE", "wavy": "CURLY_UNDERLINE", "dotted": "DOTTED_UNDERLINE",
                         "dashed": "DASHED_UNDERLINE"}.get(style, "UNDERLINE?" + str(style)))
            elif line == "line-through":
                eff.add("STRIKETHROUGH")
        if d.get("font-weight") == "bold":
            eff.add("BOLD")
        if d.get("font-style") == "italic":
            eff.add("ITALIC")
        if "opacity" in d:
            eff.add({"0.7": "DIMMED", "0": "HIDDEN"}.get(d["opacity"], "OPACITY?" + d["opacity"]))
    out["eff"] = sorted(eff)
    return out


def dump(svg_text):
    res = {"wellformed": True, "height": None, "lines": [], "text_classes": [], "has_rect": False, "error": None}
    stack = []
    css = []
    state = {"line": None, "span": None, "depth_text": None}

    def start(name, attrs):
        stack.append(name)
        local = name.split("}")[-1] if "}" in name else name.split(" ")[-1]
        if local == "svg":
            h = attrs.get("height", "")
            m = re.fullmatch(r"(\d+)px", h)
            res["height"] = int(m.group(1)) if m else -1
        elif local == "rect":
            res["has_rect"] = True
        elif local == "text":
            res["text_classes"] = attrs.get("class", "").split()
            state["depth_text"] = len(stack)
        elif local == "tspan" and state["depth_text"] is not None:
            depth = len(stack) - state["depth_text"]
            if depth == 1:
                m = re.fullmatch(r"(\d+)px", attrs.get("y", ""))
                state["line"] = {"y": int(m.group(1)) if m else -1, "spans": [], "direct": []}
                res["lines"].append(state["line"])
            elif depth == 2 and state["line"] is not None:
                state["span"] = {"classes": attrs.get("class", "").split(), "text": []}
                state["line"]["spans"].append(state["span"])

    def end(name):
        local = name.split("}")[-1] if "}" in name else name.split(" ")[-1]
        if local == "tspan" and state["depth_text"] is not None:
            depth = len(stack) - state["depth_text"]
            if depth == 2:
                state["span"] = None
            elif depth == 1:
                state["line"] = None
        elif local == "text":
            state["depth_text"] = None
        stack.pop()

    def chars(data):
        local = stack[-1].split("}")[-1] if stack else ""
        if local == "style":
            css.append(data)
        elif state["span"] is not None:
            state["span"]["text"].extend(ord(c) for c in data)
        elif state["line"] is not None:
            state["line"]["direct"].extend(ord(c) for c in data)

    p = xml.parsers.expat.ParserCreate(namespace_separator="}")
    p.StartElementHandler = start
    p.EndElementHandler = end
    p.CharacterDataHandler = chars
    p.buffer_text = True
    try:
        p.Parse(svg_text, True)
    except xml.parsers.expat.ExpatError as e:
        res["wellformed"] = False
        res["error"] = str(e)
        res["lines"] = []
        return res
    rules = parse_css("".join(css))
    res["default_fill"] = rgb(rules.get("fg", {}).get("fill", "")) if "fg" in rules else None
    res["default_bg"] = rgb(rules.get("bg", {}).get("background", "")) if "bg" in rules else None
    for line in res["lines"]:
        for s in line["spans"]:
            s.update(meaning(s["classes"], rules))
        # text directly inside the line tspan: only the closing newline is expected there
        line["direct"] = [c for c in line["direct"] if c != 10]
    return res


if __name__ == "__main__":
    print(json.dumps(dump(sys.stdin.read())))
