#!/bin/sh
# usage: try_mutant.sh <patch.diff> <ID> [<ID>...]  - apply a seeded change to /repo, run quick checks, undo it
patch="$1"; shift
git -C /repo apply "$patch" || { echo "patch does not apply"; exit 3; }
for id in "$@"; do
  python3 /verif/tools/verif.py check "$id" --tier quick > /tmp/try_$id.out 2>/tmp/try_$id.err
  rc=$?
  echo "== $id rc=$rc: $(grep -c '^VIOLATION' /tmp/try_$id.out) violations"; grep -m3 -A0 'VIOLATION\|TOOL-ERROR' /tmp/try_$id.out; grep -m3 '  -> ' /tmp/try_$id.err | cut -c1-300
done
git -C /repo checkout -- .
git -C /repo status --short | head
