//! C18: the legacy-console stream (crates/anstream/src/wincon.rs) is only compiled on Windows; its
//! platform-independent source is compiled into this harness from /repo's working tree, with the few
//! crate-internal items it refers to supplied here.
#![allow(dead_code, unused_imports, clippy::all)]

pub mod adapter {
    pub use anstream::adapter::WinconBytes;
}
pub mod stream {
    /// stand-in for anstream's sealed trait (same shape)
    pub trait AsLockedWrite {
        type Write<'w>: std::io::Write + anstyle_wincon::WinconStream + 'w
        where
            Self: 'w;
        fn as_locked_write(&mut self) -> Self::Write<'_>;
    }
    pub trait IsTerminal {
        fn is_terminal(&self) -> bool;
    }
    impl AsLockedWrite for std::io::Stdout {
        type Write<'w> = std::io::StdoutLock<'w>;
        fn as_locked_write(&mut self) -> Self::Write<'_> {
            self.lock()
        }
    }
    impl AsLockedWrite for std::io::Stderr {
        type Write<'w> = std::io::StderrLock<'w>;
        fn as_locked_write(&mut self) -> Self::Write<'_> {
            self.lock()
        }
    }
    impl AsLockedWrite for std::io::StdoutLock<'static> {
        type Write<'w> = &'w mut Self;
        fn as_locked_write(&mut self) -> Self::Write<'_> {
            self
        }
    }
    impl AsLockedWrite for std::io::StderrLock<'static> {
        type Write<'w> = &'w mut Self;
        fn as_locked_write(&mut self) -> Self::Write<'_> {
            self
        }
    }
    impl AsLockedWrite for Vec<u8> {
        type Write<'w> = &'w mut Vec<u8>;
        fn as_locked_write(&mut self) -> Self::Write<'_> {
            self
        }
    }
    impl IsTerminal for Vec<u8> {
        fn is_terminal(&self) -> bool {
            false
        }
    }
}
#[path = "/repo/crates/anstream/src/fmt.rs"]
pub(crate) mod fmt;
#[path = "/repo/crates/anstream/src/wincon.rs"]
mod wincon;
#[path = "../../vh/src/rng.rs"]
mod rng;
#[path = "../../vh/src/gen.rs"]
mod gen;

use serde_json::{json, Value};
use std::cell::RefCell;
use std::collections::VecDeque;
use std::io::{self, BufRead, Write};
use std::panic::{catch_unwind, AssertUnwindSafe};
use std::rc::Rc;

const ANSI: [anstyle::AnsiColor; 16] = [
    anstyle::AnsiColor::Black,
    anstyle::AnsiColor::Red,
    anstyle::AnsiColor::Green,
    anstyle::AnsiColor::Yellow,
    anstyle::AnsiColor::Blue,
    anstyle::AnsiColor::Magenta,
    anstyle::AnsiColor::Cyan,
    anstyle::AnsiColor::White,
    anstyle::AnsiColor::BrightBlack,
    anstyle::AnsiColor::BrightRed,
    anstyle::AnsiColor::BrightGreen,
    anstyle::AnsiColor::BrightYellow,
    anstyle::AnsiColor::BrightBlue,
    anstyle::AnsiColor::BrightMagenta,
    anstyle::AnsiColor::BrightCyan,
    anstyle::AnsiColor::BrightWhite,
];
fn idx(c: Option<anstyle::AnsiColor>) -> usize {
    match c {
        None => 16,
        Some(a) => ANSI.iter().position(|x| *x == a).unwrap(),
    }
}

#[derive(Clone, Debug)]
enum Resp {
    All,
    Short(usize),
    ErrI,
    ErrO,
}

#[derive(Default)]
struct ConsoleLog {
    script: VecDeque<Resp>,
    calls: Vec<(usize, usize, Vec<u8>, &'static str, usize)>,
}
/// recording console writer
struct Console(Rc<RefCell<ConsoleLog>>);
impl anstyle_wincon::WinconStream for Console {
    fn write_colored(&mut self, fg: Option<anstyle::AnsiColor>, bg: Option<anstyle::AnsiColor>, data: &[u8]) -> io::Result<usize> {
        let mut s = self.0.borrow_mut();
        let r = s.script.pop_front().unwrap_or(Resp::All);
        let (tag, k, res) = match r {
            Resp::All => ("ok", data.len(), Ok(data.len())),
            Resp::Short(k) => ("ok", k.min(data.len()), Ok(k.min(data.len()))),
            Resp::ErrI => ("eI", 0, Err(io::Error::new(io::ErrorKind::Interrupted, "scripted"))),
            Resp::ErrO => ("eO", 0, Err(io::Error::new(io::ErrorKind::Other, "scripted"))),
        };
        s.calls.push((idx(fg), idx(bg), data.to_vec(), tag, k));
        res
    }
}
impl Write for Console {
    fn write(&mut self, buf: &[u8]) -> io::Result<usize> {
        // the stream must go through write_colored; a plain write is recorded as a colourless call
        anstyle_wincon::WinconStream::write_colored(self, None, None, buf)
    }
    fn flush(&mut self) -> io::Result<()> {
        Ok(())
    }
}
impl stream::AsLockedWrite for Console {
    type Write<'w> = &'w mut Console;
    fn as_locked_write(&mut self) -> Self::Write<'_> {
        self
    }
}

fn kind_of(e: &io::Error) -> &'static str {
    match e.kind() {
        io::ErrorKind::Interrupted => "eI",
        io::ErrorKind::WriteZero => "eZ",
        _ => {
            if e.to_string().contains("formatter error") { "eF" } else { "eO" }
        }
    }
}

macro_rules! wlits {
    ($($l:literal),* $(,)?) => {
        const WLITS: &[&str] = &[$($l),*];
        /// `write!` with a format string that has no run-time arguments (Arguments::as_str() is Some)
        fn write_wlit(w: &mut dyn io::Write, k: usize) -> io::Result<()> {
            let mut i = 0usize;
            $(
                if i == k { return write!(w, $l); }
                i += 1;
            )*
            let _ = i;
            panic!("literal index")
        }
    };
}
wlits! { "plain words, two runs\n", "\x1b[1mbold\x1b[0m and the rest of it", "tail", "\x1b[31", "mred\n", "a\x1b[32mb\x1b[44mc\x1b[0md" }

/// after a call that FAILED: the console becomes reliable and one more formatted message (a run-time argument) is written.  It
/// starts with ESC ESC [ 0 m - whatever state the failed call left the stream in, the text behind it is read from the ground
/// state with the default rendition (the first ESC may be eaten by a character the failed call cut short) - so the console must
/// now be handed exactly "probe" in the default colours, after at most a few bytes of debris; nothing of the failed message
/// may be handed over again.
fn probe_after_failure<W: Write>(s: &mut W, log: &Rc<RefCell<ConsoleLog>>, w: &mut dyn Write) {
    {
        let mut l = log.borrow_mut();
        l.calls.clear();
        l.script.clear();
    }
    let text = "\x1b\x1b[0mprobe";
    let res = catch_unwind(AssertUnwindSafe(|| write!(s, "{}", text)));
    let console: Vec<Value> = log.borrow().calls.iter().map(|(f, b, d, t, k)| json!([f, b, d, t, k])).collect();
    let ret = match &res {
        Ok(Ok(())) => json!(["ok", text.len()]),
        Ok(Err(e)) => json!([kind_of(e), 0]),
        Err(_) => json!(["panic", 0]),
    };
    writeln!(w, "{}", json!({"op":"write_fmt","new":2,"buf":text.as_bytes(),"console":console,"ret":ret})).unwrap();
}

fn record(seed: u64, runs: u64, target: usize, path: &str, faults: bool, palette: bool) -> Value {
    let f = std::fs::File::create(path).unwrap();
    let mut w = io::BufWriter::new(f);
    let mut r = rng::Rng::new(seed);
    let (mut events, mut bytes) = (0u64, 0u64);
    for k in 0..runs {
        let input = if palette && k < 17 {
            // the whole 256-colour palette (16 indices per run) and the 16 direct codes in both slots: the 16-colour
            // reduction is a table
            let mut v = Vec::new();
            if k < 16 {
                for n in (k as usize * 16)..(k as usize * 16 + 16) {
                    v.extend_from_slice(format!("\x1b[38;5;{n}mf\x1b[48:5:{n}mb\x1b[0m").as_bytes());
                }
            } else {
                for n in (30..38).chain(90..98) {
                    v.extend_from_slice(format!("\x1b[{n}mF\x1b[{}mB\x1b[39;49m", n + 10).as_bytes());
                }
            }
            v
        } else if palette && k >= 17 + 42 {
            // formatted write in three pieces, the middle one long (255 / 256 / 300 / 1100 bytes): pieces reach the console in order
            let l = [255usize, 256, 300, 1100][(k as usize - 59) % 4];
            let mut v = b"\x1b[32;44m".to_vec();
            v.extend((0..l).map(|i| b'a' + (i % 26) as u8));
            v.extend_from_slice(b"\x1b[0m!");
            v
        } else if palette {
            // fault family: three runs in ONE buffer handed to ONE call; the console fails or is short at a LATER run
            b"one\x1b[31mtwo\x1b[42mthree\x1b[0m four".to_vec()
        } else if k % 6 == 5 {
            gen::gen_stream(&mut r, target, gen::Flavor::Full)
        } else if k % 12 == 4 {
            // control functions that END in 'm' but are not SGR (an intermediate byte or a private marker in front): they select
            // nothing, whatever their parameters look like
            let mut v = b"a\x1b[31 mb\x1b[44$mc\x1b[32md\x1b[0 me\x1b[?35mf\x1b[>4;2mg\x1b[41!m\x1b[1\"mh\x1b[0m \x1b[38;2;1;2;3;48;2;4;31;42mi\x1b[0m\x1b[48;2;9;9;9;38;2;7;34;45mj\x1b[0m\x1b[58;2;1;1;1;38;2;2;91;104mk\x1b[0m ".to_vec();
            v.extend(gen::gen_styled_text(&mut r, target / 2, false));
            v
        } else {
            gen::gen_styled_text(&mut r, target, false)
        };
        bytes += input.len() as u64;
        let mut script = VecDeque::new();
        let family: [&[Resp]; 14] = [
            &[Resp::Short(2), Resp::Short(0)], &[Resp::All, Resp::Short(1), Resp::Short(0), Resp::All],
            &[Resp::Short(2), Resp::ErrI, Resp::All], &[Resp::All, Resp::Short(1), Resp::ErrI, Resp::ErrI, Resp::All],
            &[Resp::All, Resp::ErrO], &[Resp::All, Resp::ErrI], &[Resp::Short(1), Resp::All, Resp::ErrO], &[Resp::All, Resp::All, Resp::ErrI],
            &[Resp::All, Resp::Short(2), Resp::ErrO], &[Resp::All, Resp::Short(0)], &[Resp::Short(2), Resp::Short(1), Resp::All, Resp::Short(1)],
            &[Resp::ErrO], &[Resp::ErrI], &[Resp::All, Resp::All, Resp::All, Resp::ErrO],
        ];
        let fam = if palette && k >= 17 && k < 59 { Some(family[((k - 17) / 3) as usize % family.len()]) } else { None };
        if let Some(f) = fam {
            script.extend(f.iter().cloned());
        }
        if faults {
            let profile = r.below(3);
            for _ in 0..input.len() {
                let x = r.below(100);
                script.push_back(if x < 75 {
                    Resp::All
                } else if x < 93 {
                    Resp::Short(*r.pick(&[0usize, 1, 1, 2, 3, 5]))
                } else if x < 98 {
                    if profile >= 1 { Resp::ErrI } else { Resp::All }
                } else if profile >= 2 {
                    Resp::ErrO
                } else {
                    Resp::All
                });
            }
        }
        let log = Rc::new(RefCell::new(ConsoleLog { script, calls: vec![] }));
        let mut s = wincon::WinconStream::new(Console(log.clone()));
        let pieces3 = palette && k >= 59;
        let style = if fam.is_some() || pieces3 { 0 } else { *r.pick(&[0usize, 1, 2, 3, 5, 8, 17, 64]) };
        let cuts = gen::gen_partition(&mut r, input.len(), style);
        let text_ok = std::str::from_utf8(&input).is_ok();
        let mut pos = 0;
        let mut first = true;
        for c in cuts {
            let mut c = c;
            let mut op = ["write", "write_all", "write_all", "write_fmt", "vectored"][r.below(5)];
            if fam.is_some() {
                op = ["write", "write_all", "write_fmt"][(k % 3) as usize];
            }
            if pieces3 {
                op = "write_fmt3";
            }
            if op == "write_fmt" {
                if !text_ok {
                    op = "write_all";
                } else {
                    let t = std::str::from_utf8(&input).unwrap();
                    while pos + c < input.len() && !t.is_char_boundary(pos + c) {
                        c += 1;
                    }
                }
            }
            if pos >= input.len() {
                break;
            }
            if r.chance(1, 7) {
                // an extra formatted write whose format string is a literal, in between the chunks of the input
                let k = r.below(WLITS.len());
                let lit = WLITS[k].as_bytes();
                log.borrow_mut().calls.clear();
                let res = catch_unwind(AssertUnwindSafe(|| write_wlit(&mut s, k)));
                let console: Vec<Value> = log.borrow().calls.iter().map(|(f, b, d, t, k)| json!([f, b, d, t, k])).collect();
                let ret = match &res {
                    Ok(Ok(())) => json!(["ok", lit.len()]),
                    Ok(Err(e)) => json!([kind_of(e), 0]),
                    Err(_) => json!(["panic", 0]),
                };
                writeln!(w, "{}", json!({"op":"write_fmt","new":if first {1} else {0},"buf":lit,"console":console,"ret":ret,"literal":true})).unwrap();
                events += 1;
                first = false;
                if !matches!(&res, Ok(Ok(()))) {
                    break;
                }
            }
            c = c.min(input.len() - pos);
            let buf = &input[pos..pos + c];
            if op == "write_fmt" && std::str::from_utf8(buf).is_err() {
                op = "write_all";
            }
            log.borrow_mut().calls.clear();
            let res = catch_unwind(AssertUnwindSafe(|| -> io::Result<usize> {
                match op {
                    "write" => s.write(buf),
                    "vectored" => s.write_vectored(&[io::IoSlice::new(&[]), io::IoSlice::new(buf)]),
                    "write_all" => s.write_all(buf).map(|_| buf.len()),
                    "write_fmt3" => {
                        let t = std::str::from_utf8(buf).unwrap();
                        let (a, rest) = t.split_at(8);
                        let (b, c) = rest.split_at(rest.len() - 5);
                        write!(s, "{}{}{}", a, b, c).map(|_| buf.len())
                    }
                    _ => {
                        // every other formatted write passes its first character as a `char` argument (fmt::Write::write_char)
                        let t = std::str::from_utf8(buf).unwrap();
                        match t.chars().next() {
                            Some(c0) if events % 2 == 0 => write!(s, "{}{}", c0, &t[c0.len_utf8()..]).map(|_| buf.len()),
                            _ => write!(s, "{}", t).map(|_| buf.len()),
                        }
                    }
                }
            }));
            let console: Vec<Value> = log.borrow().calls.iter().map(|(f, b, d, t, k)| json!([f, b, d, t, k])).collect();
            let ret = match &res {
                Ok(Ok(n)) => json!(["ok", n]),
                Ok(Err(e)) => json!([kind_of(e), 0]),
                Err(_) => json!(["panic", 0]),
            };
            writeln!(w, "{}", json!({"op":if op == "vectored" {"write"} else if op == "write_fmt3" {"write_fmt"} else {op},"new":if first {1} else {0},"buf":buf,"console":console,"ret":ret})).unwrap();
            events += 1;
            first = false;
            match &res {
                Ok(Ok(n)) => pos += (*n).min(c),
                Ok(Err(_)) => {
                    probe_after_failure(&mut s, &log, &mut w);
                    events += 1;
                    break;
                }
                _ => break,
            }
        }
    }
    w.flush().unwrap();
    json!({"summary":{"events":events,"bytes":bytes,"runs":runs}})
}

/// mechanism S (specification -> implementation): behaviours of MC_WinconStream {"pre":[bytes],"buf":[bytes],"op":..,"script":[..]}
/// replayed on a fresh stream over a scripted console; one trace event per call (the earlier call on a reliable console, then
/// the scripted one), in Trace_WinconStream's format
fn script_replay(path: &str, out: &str) -> Value {
    let f = std::fs::File::open(path).unwrap();
    let mut w = io::BufWriter::new(std::fs::File::create(out).unwrap());
    let (mut cases, mut events) = (0u64, 0u64);
    let bytes_of = |v: &Value| -> Vec<u8> { v.as_array().unwrap().iter().map(|x| x.as_u64().unwrap() as u8).collect() };
    for line in io::BufReader::new(f).lines() {
        let line = line.unwrap();
        if line.trim().is_empty() {
            continue;
        }
        let c: Value = serde_json::from_str(&line).unwrap();
        cases += 1;
        let (pre, buf) = (bytes_of(&c["pre"]), bytes_of(&c["buf"]));
        let op = c["op"].as_str().unwrap().to_string();
        let script: VecDeque<Resp> = c["script"].as_array().unwrap().iter().map(|r| match r.as_str().unwrap() {
            "all" => Resp::All,
            "s1" => Resp::Short(1),
            "z" => Resp::Short(0),
            "eI" => Resp::ErrI,
            _ => Resp::ErrO,
        }).collect();
        let log = Rc::new(RefCell::new(ConsoleLog::default()));
        let mut s = wincon::WinconStream::new(Console(log.clone()));
        let mut first = true;
        if !pre.is_empty() {
            let res = catch_unwind(AssertUnwindSafe(|| s.write_all(&pre)));
            let console: Vec<Value> = log.borrow().calls.iter().map(|(f, b, d, t, k)| json!([f, b, d, t, k])).collect();
            let ret = match &res {
                Ok(Ok(())) => json!(["ok", pre.len()]),
                Ok(Err(e)) => json!([kind_of(e), 0]),
                Err(_) => json!(["panic", 0]),
            };
            writeln!(w, "{}", json!({"op":"write_all","new":1,"buf":pre,"console":console,"ret":ret})).unwrap();
            events += 1;
            first = false;
        }
        {
            let mut l = log.borrow_mut();
            l.calls.clear();
            l.script = script;
        }
        let res = catch_unwind(AssertUnwindSafe(|| -> io::Result<usize> {
            match op.as_str() {
                "write" => s.write(&buf),
                "write_all" => s.write_all(&buf).map(|_| buf.len()),
                _ => write!(s, "{}", std::str::from_utf8(&buf).unwrap()).map(|_| buf.len()),
            }
        }));
        let console: Vec<Value> = log.borrow().calls.iter().map(|(f, b, d, t, k)| json!([f, b, d, t, k])).collect();
        let ret = match &res {
            Ok(Ok(n)) => json!(["ok", n]),
            Ok(Err(e)) => json!([kind_of(e), 0]),
            Err(_) => json!(["panic", 0]),
        };
        writeln!(w, "{}", json!({"op":op,"new":if first {1} else {0},"buf":buf,"console":console,"ret":ret,"script":c["script"],"model_ret":c["ret"]})).unwrap();
        events += 1;
        if matches!(&res, Ok(Err(_))) {
            probe_after_failure(&mut s, &log, &mut w);
            events += 1;
        }
    }
    w.flush().unwrap();
    json!({"summary":{"cases":cases,"events":events}})
}

/// all compositions of n (same enumeration as vh::strip::chunkings)
fn chunkings(n: usize, all_up_to: usize) -> Vec<Vec<usize>> {
    if n == 0 {
        return vec![vec![]];
    }
    let mut out = Vec::new();
    if n <= all_up_to {
        for mask in 0..(1u32 << (n - 1)) {
            let mut c = Vec::new();
            let mut cur = 1;
            for k in 0..(n - 1) {
                if mask & (1 << k) != 0 {
                    c.push(cur);
                    cur = 1;
                } else {
                    cur += 1;
                }
            }
            c.push(cur);
            out.push(c);
        }
    } else {
        out.push(vec![n]);
        out.push(vec![1; n]);
    }
    out
}

/// mechanism A: {"i":[bytes],"chars":[{"c":cp,"caps":[[fg,bg]..]}..]}: every chunking (write_all per chunk, and
/// `write` per chunk) must hand every character over exactly once with an allowed colour pair
fn replay(path: &str, all_up_to: usize) -> Value {
    let f = std::fs::File::open(path).unwrap();
    let (mut cases, mut runs, mut bad) = (0u64, 0u64, 0u64);
    for line in io::BufReader::new(f).lines() {
        let line = line.unwrap();
        if line.trim().is_empty() {
            continue;
        }
        let c: Value = serde_json::from_str(&line).unwrap();
        cases += 1;
        let input: Vec<u8> = c["i"].as_array().unwrap().iter().map(|x| x.as_u64().unwrap() as u8).collect();
        let chars = c["chars"].as_array().unwrap();
        for cuts in chunkings(input.len(), all_up_to) {
            for op in ["write_all", "write"] {
                runs += 1;
                let log = Rc::new(RefCell::new(ConsoleLog::default()));
                let res = catch_unwind(AssertUnwindSafe(|| {
                    let mut s = wincon::WinconStream::new(Console(log.clone()));
                    let mut pos = 0;
                    for n in &cuts {
                        let b = &input[pos..pos + n];
                        if op == "write" {
                            let mut p = 0;
                            while p < b.len() {
                                p += s.write(&b[p..]).unwrap();
                            }
                        } else {
                            s.write_all(b).unwrap();
                        }
                        pos += n;
                    }
                }));
                let calls = log.borrow().calls.clone();
                // per character (all enumerated characters are ASCII): byte + colour pair of its call
                let flat: Vec<(u8, usize, usize)> = calls.iter().flat_map(|c| c.2.iter().map(move |b| (*b, c.0, c.1))).collect();
                let mut problem = None;
                if res.is_err() {
                    problem = Some(json!("panic"));
                } else if flat.len() != chars.len() {
                    problem = Some(json!({"text":flat.iter().map(|x| x.0).collect::<Vec<_>>()}));
                } else {
                    for (k, (b, fg, bg)) in flat.iter().enumerate() {
                        if chars[k]["c"].as_u64() != Some(*b as u64) {
                            problem = Some(json!({"text":flat.iter().map(|x| x.0).collect::<Vec<_>>()}));
                            break;
                        }
                        if !chars[k]["caps"].as_array().unwrap().contains(&json!([fg, bg])) {
                            problem = Some(json!({"char_index":k,"colours":[fg, bg]}));
                            break;
                        }
                    }
                }
                if let Some(p) = problem {
                    bad += 1;
                    if bad <= 30 {
                        println!("{}", json!({"mismatch":{"input":input,"chunks":cuts,"op":op,"observed":p,"chars":c["chars"]}}));
                    }
                    break;
                }
            }
        }
    }
    json!({"summary":{"cases":cases,"runs":runs,"mismatches":bad}})
}

fn main() {
    std::panic::set_hook(Box::new(|_| {}));
    let args: Vec<String> = std::env::args().collect();
    match args.get(1).map(|s| s.as_str()) {
        // record <seed> <runs> <target> <out> <faults 0|1>
        Some("record") => println!(
            "{}",
            record(args[2].parse().unwrap(), args[3].parse().unwrap(), args[4].parse().unwrap(), &args[5], args[6] == "1", args[6] == "2")
        ),
        // std-lock <cases.ndjson> <stdout|stderr>: {"chunks":[[bytes],[bytes]]}: WinconStream over the REAL process stream
        // (anstyle-wincon's ANSI fallback: the pipe is no console), first chunk, lock(), second chunk; a marker written
        // through std directly after each chunk and each case
        Some("std-lock") => {
            enum S {
                O(wincon::WinconStream<io::Stdout>),
                OL(wincon::WinconStream<io::StdoutLock<'static>>),
                E(wincon::WinconStream<io::Stderr>),
                EL(wincon::WinconStream<io::StderrLock<'static>>),
            }
            let out = args[3] == "stdout";
            let mark = |m: &[u8]| {
                if out {
                    let mut o = io::stdout();
                    let _ = o.write_all(m).and_then(|_| o.flush());
                } else {
                    let mut o = io::stderr();
                    let _ = o.write_all(m).and_then(|_| o.flush());
                }
            };
            let f = std::fs::File::open(&args[2]).unwrap();
            for line in io::BufReader::new(f).lines() {
                let line = line.unwrap();
                if line.trim().is_empty() {
                    continue;
                }
                let c: Value = serde_json::from_str(&line).unwrap();
                let chunks: Vec<Vec<u8>> = c["chunks"].as_array().unwrap().iter().map(|x| x.as_array().unwrap().iter().map(|b| b.as_u64().unwrap() as u8).collect()).collect();
                let _ = catch_unwind(AssertUnwindSafe(|| {
                    let mut s = if out { S::O(wincon::WinconStream::new(io::stdout())) } else { S::E(wincon::WinconStream::new(io::stderr())) };
                    for (k, ch) in chunks.iter().enumerate() {
                        if k == 1 {
                            s = match s {
                                S::O(x) => S::OL(x.lock()),
                                S::E(x) => S::EL(x.lock()),
                                other => other,
                            };
                        }
                        let r = match &mut s {
                            S::O(x) => x.write_all(ch).and_then(|_| x.flush()),
                            S::OL(x) => x.write_all(ch).and_then(|_| x.flush()),
                            S::E(x) => x.write_all(ch).and_then(|_| x.flush()),
                            S::EL(x) => x.write_all(ch).and_then(|_| x.flush()),
                        };
                        r.unwrap();
                        mark(b"\n@@CUT@@\n");
                    }
                }));
                mark(b"\n@@SEP@@\n");
            }
        }
        // witness <out>: the canonical witness of finding F13
        Some("witness") => {
            let mut script = VecDeque::new();
            script.push_back(Resp::Short(1));
            let log = Rc::new(RefCell::new(ConsoleLog { script, calls: vec![] }));
            let mut s = wincon::WinconStream::new(Console(log.clone()));
            let buf = b"abc";
            let res = s.write(buf);
            let console: Vec<Value> = log.borrow().calls.iter().map(|(f, b, d, t, k)| json!([f, b, d, t, k])).collect();
            let ret = match &res { Ok(n) => json!(["ok", n]), Err(e) => json!([kind_of(e), 0]) };
            std::fs::write(&args[2], format!("{}\n", json!({"op":"write","new":1,"buf":buf,"console":console,"ret":ret}))).unwrap();
        }
        Some("replay") => println!("{}", replay(&args[2], args[3].parse().unwrap())),
        // script-replay <behaviours.ndjson> <out.ndjson>
        Some("script-replay") => println!("{}", script_replay(&args[2], &args[3])),
        _ => {
            eprintln!("unknown command");
            std::process::exit(2);
        }
    }
}
