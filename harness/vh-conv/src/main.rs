//! C16: conversions to other styling crates, rendered by the target library itself; clap flag for C09.
#![allow(dead_code)]
#[path = "../../vh/src/rng.rs"]
mod rng;

use anstyle::{Ansi256Color, AnsiColor, Color, Effects, RgbColor, Style};
use serde_json::{json, Value};
use std::io::Write;

const EFFECTS: [(&str, Effects); 12] = [
    ("BOLD", Effects::BOLD),
    ("DIMMED", Effects::DIMMED),
    ("ITALIC", Effects::ITALIC),
    ("UNDERLINE", Effects::UNDERLINE),
    ("DOUBLE_UNDERLINE", Effects::DOUBLE_UNDERLINE),
    ("CURLY_UNDERLINE", Effects::CURLY_UNDERLINE),
    ("DOTTED_UNDERLINE", Effects::DOTTED_UNDERLINE),
    ("DASHED_UNDERLINE", Effects::DASHED_UNDERLINE),
    ("BLINK", Effects::BLINK),
    ("INVERT", Effects::INVERT),
    ("HIDDEN", Effects::HIDDEN),
    ("STRIKETHROUGH", Effects::STRIKETHROUGH),
];
const ANSI: [AnsiColor; 16] = [
    AnsiColor::Black,
    AnsiColor::Red,
    AnsiColor::Green,
    AnsiColor::Yellow,
    AnsiColor::Blue,
    AnsiColor::Magenta,
    AnsiColor::Cyan,
    AnsiColor::White,
    AnsiColor::BrightBlack,
    AnsiColor::BrightRed,
    AnsiColor::BrightGreen,
    AnsiColor::BrightYellow,
    AnsiColor::BrightBlue,
    AnsiColor::BrightMagenta,
    AnsiColor::BrightCyan,
    AnsiColor::BrightWhite,
];
fn effects_from_bits(bits: u16) -> Effects {
    let mut e = Effects::new();
    for (k, (_, f)) in EFFECTS.iter().enumerate() {
        if bits & (1 << k) != 0 {
            e = e.insert(*f);
        }
    }
    e
}
fn col_json(c: Option<Color>) -> Value {
    match c {
        None => json!(["none"]),
        Some(Color::Ansi(a)) => json!(["ansi", ANSI.iter().position(|x| *x == a).unwrap()]),
        Some(Color::Ansi256(a)) => json!(["idx", a.0]),
        Some(Color::Rgb(r)) => json!(["rgb", r.0, r.1, r.2]),
    }
}
fn style_json(s: &Style) -> Value {
    json!({"fg":col_json(s.get_fg_color()),"bg":col_json(s.get_bg_color()),"ul":col_json(s.get_underline_color()),
           "eff":EFFECTS.iter().filter(|(_, f)| s.get_effects().contains(*f)).map(|(n, _)| json!(n)).collect::<Vec<_>>()})
}

/// a panic inside a conversion is data: the rendering "<panic>" (no marker in it, so the specification rejects it)
fn render_guarded(lib: &str, s: Style) -> Vec<u8> {
    std::panic::catch_unwind(std::panic::AssertUnwindSafe(|| render(lib, s))).unwrap_or_else(|_| b"<panic>".to_vec())
}

fn render(lib: &str, s: Style) -> Vec<u8> {
    match lib {
        "ansi_term" => anstyle_ansi_term::to_ansi_term(s).paint("X").to_string().into_bytes(),
        "crossterm" => {
            let cs = anstyle_crossterm::to_crossterm(s);
            format!("{}", crossterm::style::StyledContent::new(cs, "X")).into_bytes()
        }
        "owo_colors" => {
            use owo_colors::OwoColorize;
            format!("{}", "X".style(anstyle_owo_colors::to_owo_style(s))).into_bytes()
        }
        "termcolor" => {
            use termcolor::WriteColor;
            let mut w = termcolor::Ansi::new(Vec::new());
            w.set_color(&anstyle_termcolor::to_termcolor_spec(s)).unwrap();
            w.write_all(b"X").unwrap();
            w.reset().unwrap();
            w.into_inner()
        }
        // the COLOUR-level helpers (to_yansi_color, to_owo_colors, to_termcolor_color) are public API of their own: the colour
        // they return, used as foreground / background of a style built with the library itself
        "yansi_color" => {
            use yansi::Paint;
            let mut st = yansi::Style::new();
            if let Some(c) = s.get_fg_color() {
                st = st.fg(anstyle_yansi::to_yansi_color(c));
            }
            if let Some(c) = s.get_bg_color() {
                st = st.bg(anstyle_yansi::to_yansi_color(c));
            }
            format!("{}", "X".paint(st)).into_bytes()
        }
        "owo_color" => {
            use owo_colors::OwoColorize;
            match (s.get_fg_color(), s.get_bg_color()) {
                (Some(f), None) => format!("{}", "X".color(anstyle_owo_colors::to_owo_colors(f))).into_bytes(),
                (None, Some(b)) => format!("{}", "X".on_color(anstyle_owo_colors::to_owo_colors(b))).into_bytes(),
                _ => b"X".to_vec(),
            }
        }
        "termcolor_color" => {
            use termcolor::WriteColor;
            let mut w = termcolor::Ansi::new(Vec::new());
            let mut spec = termcolor::ColorSpec::new();
            spec.set_fg(s.get_fg_color().map(anstyle_termcolor::to_termcolor_color));
            spec.set_bg(s.get_bg_color().map(anstyle_termcolor::to_termcolor_color));
            w.set_color(&spec).unwrap();
            w.write_all(b"X").unwrap();
            w.reset().unwrap();
            w.into_inner()
        }
        // termcolor is used statefully (set_color; write; set_color; write; reset): the converted spec must also mean
        // the same style when the writer has just been showing a different, effect-laden one
        "termcolor_after" => {
            use termcolor::WriteColor;
            let mut w = termcolor::Ansi::new(Vec::new());
            let mut prior = termcolor::ColorSpec::new();
            prior.set_bold(true).set_dimmed(true).set_italic(true).set_underline(true).set_fg(Some(termcolor::Color::Red)).set_bg(Some(termcolor::Color::Blue));
            w.set_color(&prior).unwrap();
            w.write_all(b"Y").unwrap();
            w.set_color(&anstyle_termcolor::to_termcolor_spec(s)).unwrap();
            w.write_all(b"X").unwrap();
            w.reset().unwrap();
            w.into_inner()
        }
        "yansi" => {
            use yansi::Paint;
            format!("{}", "X".paint(anstyle_yansi::to_yansi_style(s))).into_bytes()
        }
        _ => panic!("lib"),
    }
}

fn colours(lattice: bool) -> Vec<Color> {
    let mut v: Vec<Color> = ANSI.iter().map(|a| Color::Ansi(*a)).collect();
    for i in 0..=255u8 {
        v.push(Color::Ansi256(Ansi256Color(i)));
    }
    let lv: &[u8] = if lattice { &[0, 1, 127, 128, 254, 255] } else { &[0, 128, 255] };
    for r in lv {
        for g in lv {
            for b in lv {
                v.push(Color::Rgb(RgbColor(*r, *g, *b)));
            }
        }
    }
    v
}

fn record(seed: u64, thorough: bool, shards: usize, prefix: &str) -> Value {
    std::env::remove_var("NO_COLOR");
    std::env::remove_var("CLICOLOR");
    std::env::remove_var("CLICOLOR_FORCE");
    yansi::enable();
    let mut files: Vec<_> = (0..shards)
        .map(|k| std::io::BufWriter::new(std::fs::File::create(format!("{prefix}-{k}.ndjson")).unwrap()))
        .collect();
    let mut n = 0usize;
    let mut r = rng::Rng::new(seed);
    let cols = colours(thorough);
    for lib in ["ansi_term", "crossterm", "owo_colors", "termcolor", "yansi"] {
        for c in &cols {
            let helper = match lib {
                "yansi" => Some("yansi_color"),
                "owo_colors" => Some("owo_color"),
                "termcolor" => Some("termcolor_color"),
                _ => None,
            };
            if let Some(h) = helper {
                for st in [Style::new().fg_color(Some(*c)), Style::new().bg_color(Some(*c))] {
                    let ev = json!({"lib":lib,"via":h,"st":style_json(&st),"bytes":render(h, st)});
                    writeln!(files[n % shards], "{ev}").unwrap();
                    n += 1;
                }
            }
        }
        let mut emit = |s: Style| {
            let ev = json!({"lib":lib,"st":style_json(&s),"bytes":render_guarded(lib, s)});
            writeln!(files[n % shards], "{ev}").unwrap();
            n += 1;
            if lib == "termcolor" {
                let ev = json!({"lib":lib,"after_prior_style":true,"st":style_json(&s),"bytes":render_guarded("termcolor_after", s)});
                writeln!(files[n % shards], "{ev}").unwrap();
                n += 1;
            }
        };
        for c in &cols {
            emit(Style::new().fg_color(Some(*c)));
            emit(Style::new().bg_color(Some(*c)));
            emit(Style::new().underline_color(Some(*c)).underline());
        }
        // every pair of named colours in the two slots (a flag shared by both slots shows only in pairs of different brightness),
        // and the SAME colour value in several slots (no slot may be derived from another)
        for f in ANSI.iter() {
            for b in ANSI.iter() {
                emit(Style::new().fg_color(Some(Color::Ansi(*f))).bg_color(Some(Color::Ansi(*b))));
            }
        }
        // every named colour with every single effect and every pair of effects (an emulation - brightness shown as bold, an
        // effect shown by exchanging colours - must hold whatever else the style carries)
        for f in ANSI.iter() {
            for (i, (_, e1)) in EFFECTS.iter().enumerate() {
                emit(Style::new().fg_color(Some(Color::Ansi(*f))).effects(*e1));
                emit(Style::new().bg_color(Some(Color::Ansi(*f))).effects(*e1));
                for (_, e2) in EFFECTS.iter().skip(i + 1) {
                    emit(Style::new().fg_color(Some(Color::Ansi(*f))).effects(*e1 | *e2));
                }
            }
        }
        for (k, c) in cols.iter().enumerate() {
            if thorough || k % 5 == (seed % 5) as usize {
                emit(Style::new().fg_color(Some(*c)).underline_color(Some(*c)).underline());
                emit(Style::new().fg_color(Some(*c)).bg_color(Some(*c)).underline_color(Some(*c)).effects(Effects::UNDERLINE | Effects::BOLD));
                emit(Style::new().bg_color(Some(*c)).underline_color(Some(*c)).effects(Effects::CURLY_UNDERLINE));
            }
        }
        for bits in 0..4096u16 {
            if !thorough && !(bits.count_ones() <= 2 || bits % 8 == (seed % 8) as u16) {
                continue;
            }
            let e = effects_from_bits(bits);
            emit(Style::new().effects(e));
            let pick = |r: &mut rng::Rng| if r.chance(1, 3) { None } else { Some(cols[r.below(cols.len())]) };
            let s = Style::new().effects(e).fg_color(pick(&mut r)).bg_color(pick(&mut r)).underline_color(pick(&mut r));
            emit(s);
        }
    }
    // syntect -> anstyle: field comparison
    let alphas: &[u8] = &[0, 1, 128, 255];
    for fs in 0..8u8 {
        for k in 0..(if thorough { 64 } else { 8 }) {
            let col = |r: &mut rng::Rng, k: usize| syntect::highlighting::Color { r: r.byte(), g: r.byte(), b: r.byte(), a: alphas[k % 4] };
            let st = syntect::highlighting::Style {
                foreground: col(&mut r, k),
                background: col(&mut r, k / 4),
                font_style: syntect::highlighting::FontStyle::from_bits_truncate(fs),
            };
            // the value syntect's own Style::default() has (opaque black on opaque white, no font style) is a style like any other
            if k == 0 && fs == 0 {
                let d = syntect::highlighting::Style::default();
                for st in [d, syntect::highlighting::Style { foreground: d.foreground, background: d.foreground, font_style: d.font_style }] {
                    let a = anstyle_syntect::to_anstyle(st);
                    let parts = anstyle::Style::new().fg_color(Some(anstyle_syntect::to_anstyle_color(st.foreground))).bg_color(Some(anstyle_syntect::to_anstyle_color(st.background)))
                        | anstyle_syntect::to_anstyle_effects(st.font_style);
                    for x in [a, parts] {
                        let ev = json!({"lib":"syntect","src":{"fg":[st.foreground.r, st.foreground.g, st.foreground.b, st.foreground.a],
                            "bg":[st.background.r, st.background.g, st.background.b, st.background.a],"bold":false,"italic":false,"underline":false},"st":style_json(&x),"bytes":[]});
                        writeln!(files[n % shards], "{ev}").unwrap();
                        n += 1;
                    }
                }
            }
            // the style, then three neighbours on the same thread that differ in ONE field each (background, foreground, font):
            // nothing remembered from the previous conversion may be served for a different input
            let mut variants = vec![st];
            let mut v = st;
            v.background.b = v.background.b.wrapping_add(1);
            variants.push(v);
            v.foreground.r = v.foreground.r.wrapping_add(1);
            variants.push(v);
            v.font_style = syntect::highlighting::FontStyle::from_bits_truncate((fs + 1) % 8);
            variants.push(v);
            for st in variants {
                let a = anstyle_syntect::to_anstyle(st);
                let ev = json!({"lib":"syntect","src":{"fg":[st.foreground.r, st.foreground.g, st.foreground.b, st.foreground.a],
                    "bg":[st.background.r, st.background.g, st.background.b, st.background.a],
                    "bold":st.font_style.contains(syntect::highlighting::FontStyle::BOLD),
                    "italic":st.font_style.contains(syntect::highlighting::FontStyle::ITALIC),
                    "underline":st.font_style.contains(syntect::highlighting::FontStyle::UNDERLINE)},"st":style_json(&a),"bytes":[]});
                writeln!(files[n % shards], "{ev}").unwrap();
                n += 1;
            }
        }
    }
    for f in files.iter_mut() {
        f.flush().unwrap();
    }
    json!({"summary":{"events":n}})
}

#[derive(clap::Parser, Debug)]
struct Cli {
    #[command(flatten)]
    color: colorchoice_clap::Color,
}

fn clap_flags() -> Value {
    // every flag spelling after every prior value of the process-wide choice (the flag is WRITTEN through, whatever was there)
    use clap::Parser;
    let mut out = Vec::new();
    let name = |c: colorchoice::ColorChoice| format!("{:?}", c);
    for prior in [colorchoice::ColorChoice::Auto, colorchoice::ColorChoice::AlwaysAnsi, colorchoice::ColorChoice::Always, colorchoice::ColorChoice::Never] {
        for args in [vec!["prog"], vec!["prog", "--color", "auto"], vec!["prog", "--color", "always"], vec!["prog", "--color", "never"], vec!["prog", "--color=always"],
                     vec!["prog", "--color=auto"], vec!["prog", "--color=never"], vec!["prog", "--color", "sometimes"], vec!["prog", "--color", "ALWAYS"],
                     vec!["prog", "--color", "always-ansi"], vec!["prog", "--color", ""]] {
            prior.write_global();
            let arg = if args.len() == 1 { "absent".to_string() } else if args.len() == 3 { args[2].to_string() } else { args[1].trim_start_matches("--color=").to_string() };
            let (parsed, after) = match Cli::try_parse_from(args.iter()) {
                Ok(cli) => {
                    let c = cli.color.as_choice();
                    cli.color.write_global();
                    (name(c), name(colorchoice::ColorChoice::global()))
                }
                Err(_) => ("rejected".to_string(), name(colorchoice::ColorChoice::global())),
            };
            out.push(json!({"k":"clap","prior":name(prior),"arg":arg,"parsed":parsed,"global_after":after}));
        }
    }
    json!(out)
}

fn main() {
    std::panic::set_hook(Box::new(|_| {}));
    let args: Vec<String> = std::env::args().collect();
    match args.get(1).map(|s| s.as_str()) {
        Some("record") => println!("{}", record(args[2].parse().unwrap(), args[3] == "1", args[4].parse().unwrap(), &args[5])),
        Some("clap") => println!("{}", clap_flags()),
        _ => std::process::exit(2),
    }
}
