//! C15 (anstyle-roff) and C14 (anstyle-svg): recorders for Trace_Roff / Trace_Svg.
#![allow(dead_code)]
#[path = "../../vh/src/rng.rs"]
mod rng;
#[path = "../../vh/src/gen.rs"]
mod gen;

use serde_json::{json, Value};
use std::io::Write;
use std::panic::{catch_unwind, AssertUnwindSafe};

const FG: [&str; 17] = ["", "30", "31", "32", "33", "34", "35", "36", "37", "90", "91", "92", "93", "94", "95", "96", "97"];
const BG: [&str; 17] = ["", "40", "41", "42", "43", "44", "45", "46", "47", "100", "101", "102", "103", "104", "105", "106", "107"];
const EFF: [&str; 8] = ["1", "2", "3", "4", "5", "7", "8", "9"];

fn seg_intro(fg: usize, bg: usize, eff_bits: usize) -> String {
    let mut codes = vec!["0".to_string()];
    for (k, e) in EFF.iter().enumerate() {
        if eff_bits & (1 << k) != 0 {
            codes.push(e.to_string());
        }
    }
    if !FG[fg].is_empty() {
        codes.push(FG[fg].to_string());
    }
    if !BG[bg].is_empty() {
        codes.push(BG[bg].to_string());
    }
    format!("\x1b[{}m", codes.join(";"))
}

fn seg_text(r: &mut rng::Rng) -> String {
    let mut s = String::new();
    for _ in 0..r.range(1, 6) {
        match r.below(14) {
            0 => s.push('.'),
            1 => s.push('\''),
            2 => s.push('\\'),
            3 => s.push('-'),
            4 | 5 => s.push('\n'),
            6 => s.push_str(*r.pick(&[".TH", "'br", "\\fB", "\\&", "--", "\\-", ".\\\"", "\\e", ". ."])),
            7 => s.push(gen::gen_char(r)),
            8 => s.push(' '),
            _ => {
                for _ in 0..r.range(1, 5) {
                    s.push(r.range(0x21, 0x7e) as u8 as char);
                }
            }
        }
    }
    // stay inside the statement's domain: text without escape/control characters other than newline and tab
    s.chars().filter(|c| *c == '\n' || *c == '\t' || (*c >= ' ' && *c != '\u{7f}' && !('\u{80}'..='\u{9f}').contains(c))).collect()
}

fn roff_event(input: &str) -> Value {
    match catch_unwind(AssertUnwindSafe(|| anstyle_roff::to_roff(input).to_roff())) {
        Ok(doc) => json!({"in":input.as_bytes(),"doc":doc.chars().map(|c| c as u32).collect::<Vec<_>>()}),
        Err(_) => json!({"in":input.as_bytes(),"doc":[0]}),
    }
}

fn roff_record(seed: u64, thorough: bool, shards: usize, prefix: &str) -> Value {
    let mut files: Vec<_> = (0..shards).map(|k| std::io::BufWriter::new(std::fs::File::create(format!("{prefix}-{k}.ndjson")).unwrap())).collect();
    let mut n = 0usize;
    let mut r = rng::Rng::new(seed);
    // single segment: all 17 x 17 colour pairs x effect subsets (thorough: all 256; quick: bold/italic lattice + seeded)
    for fg in 0..17 {
        for bg in 0..17 {
            let effs: Vec<usize> = if thorough { (0..256).collect() } else { vec![0, 1, 4, 5, 2, 1 << r.below(8), r.below(256)] };
            for e in effs {
                let input = format!("{}{}", seg_intro(fg, bg, e), if (fg + bg + e) % 3 == 0 { "text -x" } else { ".x'y\\z" });
                writeln!(files[n % shards], "{}", roff_event(&input)).unwrap();
                n += 1;
            }
        }
    }
    // multi-segment texts
    for _ in 0..(if thorough { 20000 } else { 1500 }) {
        let mut input = String::new();
        if r.chance(1, 3) {
            input.push_str(&seg_text(&mut r));
        }
        for _ in 0..r.range(1, 5) {
            // neighbouring segments of equal style are deliberately frequent
            let (fg, bg, e) = if r.chance(1, 3) { (1, 0, 1) } else { (r.below(17), r.below(17), r.below(256)) };
            input.push_str(&seg_intro(fg, bg, e));
            input.push_str(&seg_text(&mut r));
        }
        if r.chance(1, 2) {
            input.push_str("\x1b[0m");
        }
        writeln!(files[n % shards], "{}", roff_event(&input)).unwrap();
        n += 1;
    }
    for f in files.iter_mut() {
        f.flush().unwrap();
    }
    json!({"summary":{"events":n}})
}

fn col_json(c: anstyle::Color) -> Value {
    match c {
        anstyle::Color::Ansi(a) => {
            let i = anstyle::Ansi256Color::from_ansi(a).index();
            json!(["ansi", i])
        }
        anstyle::Color::Ansi256(a) => json!(["idx", a.0]),
        anstyle::Color::Rgb(r) => json!(["rgb", r.0, r.1, r.2]),
    }
}

/// SGR-rich texts whose visible text is representable in XML 1.0 (no FF, no U+FFFE/U+FFFF, CR only before LF)
fn svg_text(r: &mut rng::Rng, target: usize) -> String {
    let raw = gen::gen_styled_text(r, target, true);
    let s = String::from_utf8(raw).unwrap();
    let mut out = String::new();
    let chars: Vec<char> = s.chars().collect();
    for (i, c) in chars.iter().enumerate() {
        match *c {
            // DEL: the statement does not say whether it is visible text (the extractor prints it, the renderer draws a block for it);
            // it is kept out of the C14 inputs like the characters XML cannot carry
            '\u{c}' | '\u{fffe}' | '\u{ffff}' | '\u{7f}' => out.push(' '),
            '\r' => {
                if chars.get(i + 1) == Some(&'\n') {
                    out.push('\r')
                }
            }
            c => out.push(c),
        }
    }
    out
}

fn svg_record(seed: u64, n: u64, target: usize, path: &str) -> Value {
    let mut w = std::io::BufWriter::new(std::fs::File::create(path).unwrap());
    let mut r = rng::Rng::new(seed);
    for k in 0..n {
        let input = match k % 7 {
            0 => format!("{}\r\n<a&b> \"q\" ]]>\n", svg_text(&mut r, target / 2)),
            1 => format!("\x1b[7m inverted \x1b[31;42m both \x1b[27;0m{}", svg_text(&mut r, target / 2)),
            // fragments made only of zero-width characters: a combining mark between two style changes, a line of U+200B
            2 => format!("e\x1b[31m\u{301}\x1b[0m!\n\u{200b}\n\x1b[4m\u{200d}\x1b[24;1mx{}", svg_text(&mut r, target / 2)),
            // a CR and the LF after it separated by sequences that print nothing (erase-line, a redundant reset, a hyperlink
            // terminator, a style change): still "a carriage return before a newline"
            3 => format!("ab\r\x1b[K\ncd\r\x1b[0m\nef\r\x1b]8;;\x1b\\\ngh\x1b[1m\r\x1b[K\x1b[K\nij{}", svg_text(&mut r, target / 2)),
            // blanks whose decoration (underline / strikethrough / background) must keep the colour in force when only the
            // foreground changes right behind them
            // different direct colours whose hexadecimal digits coincide once leading zeros are dropped (#012345 / #120345,
            // #0A0B0C / #A0B0C0 ...) in all three slots of ONE document
            6 if k % 3 == 1 => format!("\x1b[38;2;1;35;69mA\x1b[38;2;18;3;69mB\x1b[0m\x1b[48;2;10;11;12mC\x1b[48;2;160;176;192mD\x1b[0m\x1b[4;58;2;1;2;3mE\x1b[58;2;16;32;48mF\x1b[58;2;0;18;3mG\x1b[0m\n{}", svg_text(&mut r, target / 2)),
            // one span carrying (nearly) every attribute at once - several underline styles included: however the classes of a
            // span are collected, there is room for all of them
            6 if k % 3 == 2 => format!("\x1b[1;2;3;4;21;4:3;4:4;4:5;5;7;8;9;31;42;58;5;3mall\x1b[0m \x1b[1;2;3;4;8;9;21;31;58;5;3mX\x1b[0m \x1b[1;2;3;4;21;4:3;4:4;4:5;9;38;2;1;2;3;48;2;4;5;6;58;2;7;8;9mY\x1b[0m\n{}", svg_text(&mut r, target / 2)),
            6 if k % 3 == 0 => format!("\x1b[4;31m  \x1b[32mx\x1b[0m\n\x1b[9;35m\t\x1b[36my\x1b[0m \x1b[41m \x1b[44m \x1b[0m|\n{}", svg_text(&mut r, target / 2)),
            4 if k % 2 == 0 => format!("kl\r\x1b[31m\nmn\x1b[0m\r\x1b[4m\x1b[K\nop{}", svg_text(&mut r, target / 2)),
            // no escape sequence at all, but controls that are executed (BEL, BS, SOH, VT, SO): the text goes through the same
            // extraction whether or not a sequence is present
            5 if k % 2 == 1 => format!("done\x07 plain\x08 text\x01 with\x0b controls\x0e\nsecond line {}\n", (0..r.range(0, 9)).map(|_| r.range(0x20, 0x7e) as u8 as char).filter(|c| *c != '\x7f').collect::<String>()),
            _ => svg_text(&mut r, target),
        };
        let (pname, pal) = if r.chance(1, 2) { ("VGA", anstyle_svg::VGA) } else { ("WIN10", anstyle_svg::WIN10_CONSOLE) };
        let fg = match r.below(4) {
            0 => anstyle::Color::Ansi(anstyle::AnsiColor::Green),
            1 => anstyle::Color::Rgb(anstyle::RgbColor(0x12, 0x34, 0x56)),
            _ => anstyle::Color::Ansi(anstyle::AnsiColor::White),
        };
        let bg = match r.below(4) {
            0 => anstyle::Color::Ansi256(anstyle::Ansi256Color(236)),
            1 => anstyle::Color::Rgb(anstyle::RgbColor(0xab, 0xcd, 0xef)),
            _ => anstyle::Color::Ansi(anstyle::AnsiColor::Black),
        };
        let background = r.chance(2, 3);
        let term = anstyle_svg::Term::new().palette(pal).fg_color(fg).bg_color(bg).background(background);
        let svg = match catch_unwind(AssertUnwindSafe(|| term.render_svg(&input))) {
            Ok(s) => s,
            Err(_) => "<panic".to_string(),
        };
        let palj: Vec<Value> = pal.0.iter().map(|c| json!([c.r(), c.g(), c.b()])).collect();
        writeln!(w, "{}", json!({"in":input.as_bytes(),"cfg":{"palette":pname,"pal":palj,"fg":col_json(fg),"bg":col_json(bg),"background":background,"padding":10},"svg":svg})).unwrap();
    }
    w.flush().unwrap();
    json!({"summary":{"events":n}})
}

/// C04: the document converters on arbitrary text, under catch_unwind
fn total_run(seed: u64, n: u64, target: usize, path: &str) -> Value {
    let mut w = std::io::BufWriter::new(std::fs::File::create(path).unwrap());
    let mut r = rng::Rng::new(seed);
    let mut calls = 0u64;
    for k in 0..n {
        let bytes = match k % 5 {
            // runs with a background / reverse video that are 70..260 columns wide on one line (block rows are built per column)
            0 if k % 15 == 0 => {
                let w = [70usize, 80, 81, 100, 239, 240, 241, 260][(k as usize / 15) % 8];
                let mut v = format!("lead \x1b[{}m", ["44", "7", "48;5;200", "7;31"][(k as usize / 15) % 4]).into_bytes();
                v.extend((0..w).map(|i| b'a' + (i % 26) as u8));
                v.extend_from_slice(b"\x1b[0m tail\n");
                v
            }
            0 => gen::gen_stream(&mut r, target, gen::Flavor::Utf8),
            1 if k % 10 == 1 => format!("\x1b[1;2;3;4;21;4:3;4:4;4:5;5;7;8;9;31;42;58;5;3mall\x1b[0m \x1b[1;2;3;4;8;9;21;31;58;5;3mX\x1b[0m\n").into_bytes(),
            1 => gen::gen_styled_text(&mut r, target, true),
            2 => String::from_utf8_lossy(&gen::gen_stream(&mut r, target, gen::Flavor::Full)).into_owned().into_bytes(),
            3 => {
                let mut s = String::new();
                for _ in 0..target / 2 {
                    s.push(gen::gen_char(&mut r));
                }
                s.into_bytes()
            }
            _ => String::from_utf8_lossy(&(0..target).map(|_| r.byte()).collect::<Vec<u8>>()).into_owned().into_bytes(),
        };
        let text = String::from_utf8(bytes).unwrap();
        let mut apis = Vec::new();
        let pal = if k % 2 == 0 { anstyle_svg::VGA } else { anstyle_svg::WIN10_CONSOLE };
        let res = catch_unwind(AssertUnwindSafe(|| anstyle_svg::Term::new().palette(pal).background(k % 3 == 0).render_svg(&text).len()));
        apis.push(json!(["render_svg", if res.is_ok() { "ok" } else { "panic" }, res.is_ok()]));
        let res = catch_unwind(AssertUnwindSafe(|| anstyle_roff::to_roff(&text).to_roff().len()));
        apis.push(json!(["to_roff", if res.is_ok() { "ok" } else { "panic" }, res.is_ok()]));
        calls += 2;
        let head: Vec<u8> = text.as_bytes().iter().take(64).cloned().collect();
        writeln!(w, "{}", json!({"n":text.len(),"in":head,"apis":apis,"dbg":{"inter":-1,"osc":-1,"params":-1}})).unwrap();
    }
    w.flush().unwrap();
    json!({"summary":{"inputs":n,"calls":calls}})
}

fn main() {
    std::panic::set_hook(Box::new(|_| {}));
    let args: Vec<String> = std::env::args().collect();
    match args.get(1).map(|s| s.as_str()) {
        Some("roff-record") => println!("{}", roff_record(args[2].parse().unwrap(), args[3] == "1", args[4].parse().unwrap(), &args[5])),
        Some("total-run") => println!("{}", total_run(args[2].parse().unwrap(), args[3].parse().unwrap(), args[4].parse().unwrap(), &args[5])),
        // svg-record <seed> <n> <target> <out>
        Some("svg-record") => println!("{}", svg_record(args[2].parse().unwrap(), args[3].parse().unwrap(), args[4].parse().unwrap(), &args[5])),
        Some("roff") | Some("svg") => {
            let input: Vec<u8> = serde_json::from_str(&args[2]).unwrap();
            let s = String::from_utf8(input).unwrap();
            if args[1] == "roff" {
                print!("{}", anstyle_roff::to_roff(&s).to_roff())
            } else {
                print!("{}", anstyle_svg::Term::new().render_svg(&s))
            }
        }
        _ => std::process::exit(2),
    }
}
