//! C20: the parser under one feature configuration (core / utf8), recording callbacks for Trace_VtParser.
#![allow(dead_code)]
#[path = "../../vh/src/rng.rs"]
mod rng;
#[path = "../../vh/src/gen.rs"]
mod gen;
#[path = "../../vh/src/vt.rs"]
mod vt;

use serde_json::json;
use std::io::Write;

/// OSC with a payload around the fixed-buffer limit: 1000..1100 payload bytes and 0..20 separators
fn gen_big_osc(r: &mut rng::Rng, out: &mut Vec<u8>, k: usize) {
    out.extend_from_slice(b"\x1b]");
    // even k: the byte at the limit (no separators); odd k: separator counts around the field limit, in a fixed cycle
    let is_edge = k % 2 == 0;
    let payload = if is_edge { r.range(1030, 1100) } else { r.range(1000, 1100) };
    let seps = if is_edge { 0 } else { [16usize, 17, 20, 18, 15, 14, 5, 0, 1, 2, 16][(k / 2) % 11] };
    let mut sep_at: Vec<usize> = (0..seps).map(|_| r.below(payload + seps)).collect();
    if seps >= 16 && (k / 2) % 3 != 2 {
        // every field boundary well inside the buffer: both limits are reached in the same string
        sep_at = (0..seps).map(|i| 40 * i + r.below(30)).collect();
    } else if r.chance(1, 3) {
        // separators crowded around the limit
        sep_at = (0..seps).map(|_| r.range(1015, 1035).min(payload + seps - 1)).collect();
    }
    // the byte that arrives when the fixed buffer is exactly full (and its neighbours) is each kind of payload byte in turn:
    // DEL, a separator, the first and the last printable
    const EDGES: [Option<(usize, u8)>; 9] = [Some((1024, 0x7f)), Some((1023, 0x7f)), Some((1024, b';')), Some((1025, 0x7f)), Some((1023, b';')),
        Some((1022, 0x7f)), Some((1025, b';')), None, Some((1024, 0x7e))];
    let edge = if is_edge { EDGES[(k / 2) % 9] } else { None };
    for i in 0..(payload + seps) {
        if let Some((at, x)) = edge {
            if i == at {
                out.push(x);
                continue;
            }
        }
        if sep_at.contains(&i) {
            out.push(b';');
        } else {
            out.push(r.range(0x20, 0x7f) as u8);
            if *out.last().unwrap() == b';' {
                *out.last_mut().unwrap() = b'x';
            }
        }
    }
    match r.below(4) {
        0 => out.push(7),
        1 => out.extend_from_slice(b"\x1b\\"),
        2 => out.push(0x18),
        _ => out.push(7),
    }
}

fn main() {
    std::panic::set_hook(Box::new(|_| {}));
    let args: Vec<String> = std::env::args().collect();
    match args.get(1).map(|s| s.as_str()) {
        // record <seed> <streams> <target> <out>
        Some("record") => {
            let (seed, streams, target): (u64, u64, usize) = (args[2].parse().unwrap(), args[3].parse().unwrap(), args[4].parse().unwrap());
            let f = std::fs::File::create(&args[5]).unwrap();
            let mut w = std::io::BufWriter::new(f);
            let mut r = rng::Rng::new(seed);
            let mut total = 0usize;
            for s in 0..streams {
                let mut input = gen::gen_stream(&mut r, target, gen::Flavor::SevenBit);
                if s % 2 == 0 {
                    gen_big_osc(&mut r, &mut input, ((seed % 100) * streams + s) as usize / 2);
                    // what follows an oversize string must be unaffected: an ordinary OSC, then more grammar
                    input.extend_from_slice(b"\x1b]0;title;x\x07ok\x1b]2;b\x1b\\");
                    let tail = gen::gen_stream(&mut r, 60, gen::Flavor::SevenBit);
                    input.extend_from_slice(&tail);
                }
                writeln!(w, "{}", json!({"b":256,"e":[]})).unwrap();
                let mut p = vt::P::new();
                for b in &input {
                    let e = vt::advance(&mut p, *b);
                    writeln!(w, "{}", json!({"b":b,"e":e})).unwrap();
                }
                total += input.len();
            }
            w.flush().unwrap();
            println!("{}", json!({"summary":{"bytes":total,"streams":streams}}));
        }
        _ => std::process::exit(2),
    }
}
