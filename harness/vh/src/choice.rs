//! C09: every configuration TLC enumerated, applied by MUTATING the process environment (so that a cached probe
//! would be caught), queried through AutoStream::choice / AutoStream::auto(..).current_choice() and the probes.
use crate::stream::{choice_name, choice_of};
use serde_json::{json, Value};
use std::os::unix::io::FromRawFd;

fn open_pty() -> Option<(std::fs::File, std::fs::File)> {
    let mut master: libc::c_int = 0;
    let mut slave: libc::c_int = 0;
    let r = unsafe { libc::openpty(&mut master, &mut slave, std::ptr::null_mut(), std::ptr::null(), std::ptr::null()) };
    if r != 0 {
        return None;
    }
    unsafe { Some((std::fs::File::from_raw_fd(master), std::fs::File::from_raw_fd(slave))) }
}

fn apply(var: &str, val: &str) {
    if val == "unset" {
        std::env::remove_var(var);
    } else {
        std::env::set_var(var, val);
    }
}

pub fn replay(path: &str) -> Value {
    let pty = open_pty();
    let tmp = std::env::temp_dir().join(format!("vh-choice-{}", std::process::id()));
    let regular = std::fs::File::create(&tmp).unwrap();
    let (mut cases, mut checks, mut bad, mut skipped_term) = (0u64, 0u64, 0u64, 0u64);
    let vars = ["NO_COLOR", "CLICOLOR_FORCE", "CLICOLOR", "TERM", "CI"];
    let mut cur: Vec<String> = vars.iter().map(|_| "?".to_string()).collect();
    std::env::remove_var("COLORTERM");
    for c in crate::read_lines(path) {
        cases += 1;
        for (k, v) in vars.iter().enumerate() {
            let want = c["env"][*v].as_str().unwrap();
            if cur[k] != want {
                apply(v, want);
                cur[k] = want.to_string();
            }
        }
        choice_of(c["g"].as_str().unwrap()).write_global();
        let term = c["term"].as_bool().unwrap();
        let mut fail = |what: &str, got: Value, exp: &Value| {
            bad += 1;
            if bad <= 30 {
                println!("{}", json!({"mismatch":{"config":{"g":c["g"],"env":c["env"],"term":c["term"]},"what":what,"observed":got,"expected":exp}}));
            }
        };
        // the probes
        let probes = [
            ("no_color", json!(anstyle_query::no_color())),
            ("clicolor_force", json!(anstyle_query::clicolor_force())),
            ("clicolor", json!(match anstyle_query::clicolor() { None => "none", Some(true) => "true", Some(false) => "false" })),
            ("term_color", json!(anstyle_query::term_supports_color())),
            ("ci", json!(anstyle_query::is_ci())),
        ];
        for (name, got) in probes {
            checks += 1;
            if got != c[name] {
                fail(name, got, &c[name]);
            }
        }
        checks += 1;
        let g = choice_name(anstream::ColorChoice::global());
        if json!(g) != c["g"] {
            fail("ColorChoice::global", json!(g), &c["g"]);
        }
        // the decision, per stream kind
        if term {
            match &pty {
                Some((_m, slave)) => {
                    checks += 2;
                    let f = slave.try_clone().unwrap();
                    let d = choice_name(anstream::AutoStream::choice(&f));
                    if json!(d) != c["decision"] {
                        fail("AutoStream::choice(pty)", json!(d), &c["decision"]);
                    }
                    let s = anstream::AutoStream::auto(f);
                    checks += 1;
                    if !s.is_terminal() {
                        fail("AutoStream::auto(pty).is_terminal", json!(false), &json!(true));
                    }
                    let rep = choice_name(s.current_choice());
                    if json!(rep) != c["reported"] {
                        fail("AutoStream::auto(pty).current_choice", json!(rep), &c["reported"]);
                    }
                }
                None => skipped_term += 1,
            }
        } else {
            checks += 4;
            let v: Vec<u8> = Vec::new();
            let d = choice_name(anstream::AutoStream::choice(&v));
            if json!(d) != c["decision"] {
                fail("AutoStream::choice(Vec)", json!(d), &c["decision"]);
            }
            let sv = anstream::AutoStream::auto(v);
            checks += 2;
            if sv.is_terminal() {
                fail("AutoStream::auto(Vec).is_terminal", json!(true), &json!(false));
            }
            if anstream::StripStream::new(regular.try_clone().unwrap()).is_terminal() {
                fail("StripStream::new(File).is_terminal", json!(true), &json!(false));
            }
            let rep = choice_name(sv.current_choice());
            if json!(rep) != c["reported"] {
                fail("AutoStream::auto(Vec).current_choice", json!(rep), &c["reported"]);
            }
            let f = regular.try_clone().unwrap();
            let d = choice_name(anstream::AutoStream::choice(&f));
            if json!(d) != c["decision"] {
                fail("AutoStream::choice(File)", json!(d), &c["decision"]);
            }
            let b: Box<dyn std::io::Write> = Box::new(Vec::new());
            let rep = choice_name(anstream::AutoStream::new(b, anstream::ColorChoice::Auto).current_choice());
            if json!(rep) != c["reported"] {
                fail("AutoStream::new(Box<dyn Write>, Auto).current_choice", json!(rep), &c["reported"]);
            }
        }
    }
    // COLORTERM x truecolor, separately
    // (crossed with every other variable: the COLORTERM probe looks at COLORTERM only)
    for (other, val) in [("TERM", "unset"), ("TERM", "dumb"), ("TERM", ""), ("TERM", "xterm-256color"), ("NO_COLOR", "1"), ("CLICOLOR", "0"), ("CLICOLOR_FORCE", "1"), ("CI", "true")] {
        for v in ["NO_COLOR", "CLICOLOR_FORCE", "CLICOLOR", "TERM", "CI"] {
            apply(v, "unset");
        }
        apply(other, val);
        for (v, exp) in [("unset", false), ("", false), ("truecolor", true), ("24bit", true), ("yes", false), ("256", false), ("TRUECOLOR", false)] {
            apply("COLORTERM", v);
            checks += 1;
            if anstyle_query::truecolor() != exp {
                bad += 1;
                println!("{}", json!({"mismatch":{"config":{"COLORTERM":v, other:val},"what":"truecolor","observed":!exp,"expected":exp}}));
            }
        }
    }
    let _ = std::fs::remove_file(&tmp);
    json!({"summary":{"cases":cases,"checks":checks,"mismatches":bad,"terminal_cases_skipped":skipped_term}})
}

/// C09 on the REAL standard handles: the automatic decision for Stdout, StdoutLock, Stderr, StderrLock and the
/// anstream::stdout()/stderr() streams of THIS process (the driver binds fd 1 and fd 2 to a pty or a pipe and knows
/// which is which).  One JSON line per handle, written to `out`.
pub fn std_term(out: &str) -> Value {
    use std::io::Write;
    colorchoice::ColorChoice::Auto.write_global();
    let mut w = crate::out_file(out);
    let so = std::io::stdout();
    let se = std::io::stderr();
    let mut obs: Vec<(&str, String)> = Vec::new();
    obs.push(("stdout", choice_name(anstream::AutoStream::choice(&so)).to_string()));
    obs.push(("stderr", choice_name(anstream::AutoStream::choice(&se)).to_string()));
    {
        let l = so.lock();
        obs.push(("stdout-lock", choice_name(anstream::AutoStream::choice(&l)).to_string()));
    }
    {
        let l = se.lock();
        obs.push(("stderr-lock", choice_name(anstream::AutoStream::choice(&l)).to_string()));
    }
    obs.push(("anstream::stdout", choice_name(anstream::stdout().current_choice()).to_string()));
    obs.push(("anstream::stderr", choice_name(anstream::stderr().current_choice()).to_string()));
    obs.push(("anstream::stdout.lock", choice_name(anstream::stdout().lock().current_choice()).to_string()));
    obs.push(("anstream::stderr.lock", choice_name(anstream::stderr().lock().current_choice()).to_string()));
    for (h, d) in &obs {
        writeln!(w, "{}", json!({"handle":h,"decision":d})).unwrap();
    }
    w.flush().unwrap();
    json!({"summary":{"handles":obs.len()}})
}
