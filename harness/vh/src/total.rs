//! C04: every entry point that consumes terminal output or user-supplied style text, under catch_unwind, in a build
//! with debug assertions and overflow checks on.
use crate::gen::{gen_stream, gen_styled_text, Flavor};
use crate::rng::Rng;
use serde_json::{json, Value};
use std::io::Write;
use std::panic::{catch_unwind, AssertUnwindSafe};

fn guard<F: FnOnce() -> bool>(name: &str, f: F) -> Value {
    match catch_unwind(AssertUnwindSafe(f)) {
        Ok(ok) => json!([name, "ok", ok]),
        Err(_) => json!([name, "panic", false]),
    }
}

fn inside(input: &[u8], piece: &[u8]) -> bool {
    let (a, b) = (input.as_ptr() as usize, piece.as_ptr() as usize);
    b >= a && b + piece.len() <= a + input.len()
}

fn dbg_num(s: &str, key: &str) -> i64 {
    s.find(key).and_then(|i| s[i + key.len()..].trim_start_matches(|c: char| c == ':' || c == ' ').split(|c: char| !c.is_ascii_digit()).next().and_then(|x| x.parse().ok())).unwrap_or(-1)
}

pub fn inputs(r: &mut Rng, k: u64, target: usize) -> Vec<u8> {
    match k % 8 {
        0 | 1 => gen_stream(r, target, Flavor::Full),
        2 => gen_stream(r, target, Flavor::Utf8),
        3 => gen_styled_text(r, target, true),
        4 => (0..target).map(|_| r.byte()).collect(),
        5 => {
            // arbitrary Unicode
            let mut s = String::new();
            for _ in 0..target / 2 {
                s.push(crate::gen::gen_char(r));
            }
            s.into_bytes()
        }
        6 => {
            // boundary-rich: long parameter lists, many intermediates, OSC fields
            let mut v = Vec::new();
            for _ in 0..6 {
                crate::gen::gen_csi(r, &mut v);
                crate::gen::gen_osc(r, &mut v, Flavor::Full);
            }
            v
        }
        _ => {
            let mut v = b"\x1b[".to_vec();
            for _ in 0..r.range(30, 40) {
                v.extend_from_slice(r.below(70000).to_string().as_bytes());
                v.push(if r.chance(1, 2) { b';' } else { b':' });
            }
            v.push(b'm');
            v
        }
    }
}

pub fn run(seed: u64, n: u64, target: usize, path: &str) -> Value {
    let mut w = crate::out_file(path);
    let mut r = Rng::new(seed);
    let mut calls = 0u64;
    let mut distinct = std::collections::HashSet::new();
    for k in 0..n {
        let input = inputs(&mut r, k, target);
        {
            use std::hash::{Hash, Hasher};
            let mut h = std::collections::hash_map::DefaultHasher::new();
            input.hash(&mut h);
            distinct.insert(h.finish());
        }
        let mut apis = Vec::new();
        let mut dbg = json!({"inter":-1,"osc":-1,"params":-1});
        apis.push(guard("Parser::advance", || {
            let mut p = crate::vt::P::new();
            let mut rec = crate::vt::Rec(vec![]);
            for b in &input {
                p.advance(&mut rec, *b);
                rec.0.clear();
            }
            let d = format!("{:?}", p);
            dbg = json!({"inter":dbg_num(&d, "intermediate_idx"),"osc":dbg_num(&d, "osc_num_params"),"params":dbg_num(&d, "len")});
            true
        }));
        apis.push(guard("strip_bytes", || anstream::adapter::strip_bytes(&input).all(|p| inside(&input, p))));
        apis.push(guard("StripBytes(1)", || {
            let mut s = anstream::adapter::StripBytes::new();
            input.chunks(1).all(|c| s.strip_next(c).all(|p| inside(c, p)))
        }));
        apis.push(guard("StripBytes(7)", || {
            let mut s = anstream::adapter::StripBytes::new();
            input.chunks(7).all(|c| s.strip_next(c).all(|p| inside(c, p)))
        }));
        apis.push(guard("WinconBytes", || {
            let mut s = anstream::adapter::WinconBytes::new();
            input.chunks(5).all(|c| s.extract_next(c).all(|(_, t)| std::str::from_utf8(t.as_bytes()).is_ok()))
        }));
        apis.push(guard("StripStream::write_all", || {
            let mut s = anstream::StripStream::new(Vec::new());
            s.write_all(&input).is_ok()
        }));
        apis.push(guard("AutoStream::never.write", || {
            let mut s = anstream::AutoStream::never(Vec::new());
            let mut p = 0;
            while p < input.len() {
                p += s.write(&input[p..]).unwrap().max(1);
            }
            true
        }));
        if let Ok(text) = std::str::from_utf8(&input) {
            apis.push(guard("strip_str", || anstream::adapter::strip_str(text).all(|p| inside(&input, p.as_bytes()) && std::str::from_utf8(p.as_bytes()).is_ok())));
            apis.push(guard("StripStr(chars)", || {
                let mut s = anstream::adapter::StripStr::new();
                let mut ok = true;
                let mut start = 0;
                for (i, _) in text.char_indices().skip(1).chain(std::iter::once((text.len(), ' '))) {
                    let c = &text[start..i];
                    ok &= s.strip_next(c).all(|p| inside(c.as_bytes(), p.as_bytes()) && std::str::from_utf8(p.as_bytes()).is_ok());
                    start = i;
                }
                ok
            }));
            apis.push(guard("anstyle_git::parse", || {
                let _ = anstyle_git::parse(text);
                let _ = anstyle_git::parse(&text.replace('\x1b', " #"));
                true
            }));
            apis.push(guard("anstyle_ls::parse", || {
                let _ = anstyle_ls::parse(text);
                let _ = anstyle_ls::parse(&text.replace('\x1b', ";"));
                true
            }));
        }
        // lossy conversion with an arbitrary palette
        apis.push(guard("anstyle_lossy", || {
            let mut p = [anstyle::RgbColor(0, 0, 0); 16];
            for (i, e) in p.iter_mut().enumerate() {
                let b = |k: usize| input.get((i * 3 + k) % input.len().max(1)).copied().unwrap_or(0);
                *e = anstyle::RgbColor(b(0), b(1), b(2));
            }
            let pal = anstyle_lossy::palette::Palette(p);
            for c in input.chunks(3).take(40) {
                let rgb = anstyle::RgbColor(c[0], *c.get(1).unwrap_or(&0), *c.get(2).unwrap_or(&255));
                let _ = anstyle_lossy::rgb_to_ansi(rgb, pal);
                let _ = anstyle_lossy::rgb_to_xterm(rgb);
                let _ = anstyle_lossy::xterm_to_ansi(anstyle::Ansi256Color(c[0]), pal);
                let _ = anstyle_lossy::color_to_rgb(anstyle::Color::Ansi256(anstyle::Ansi256Color(c[0])), pal);
            }
            true
        }));
        calls += apis.len() as u64;
        writeln!(w, "{}", json!({"n":input.len(),"in":if input.len() <= 64 { json!(input) } else { json!(input[..64]) },"apis":apis,"dbg":dbg})).unwrap();
    }
    w.flush().unwrap();
    json!({"summary":{"inputs":n,"calls":calls,"distinct":distinct.len()}})
}
