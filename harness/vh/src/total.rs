//! C04: every entry point that consumes terminal output or user-supplied style text, under catch_unwind, in a build
//! with debug assertions and overflow checks on.
use crate::gen::{gen_stream, gen_styled_text, Flavor};
use crate::rng::Rng;
use serde_json::{json, Value};
use std::io::Write;
use std::panic::{catch_unwind, AssertUnwindSafe};

fn guard<F: FnOnce() -> bool>(name: &str, f: F) -> Value {
    match catch_unwind(AssertUnwindSafe(f)) {
        Ok(ok) => json!([name, "ok", ok]),
        Err(_) => json!([name, "panic", false]),
    }
}

fn inside(input: &[u8], piece: &[u8]) -> bool {
    let (a, b) = (input.as_ptr() as usize, piece.as_ptr() as usize);
    b >= a && b + piece.len() <= a + input.len()
}

fn dbg_num(s: &str, key: &str) -> i64 {
    s.find(key).and_then(|i| s[i + key.len()..].trim_start_matches(|c: char| c == ':' || c == ' ').split(|c: char| !c.is_ascii_digit()).next().and_then(|x| x.parse().ok())).unwrap_or(-1)
}

pub fn inputs(r: &mut Rng, k: u64, target: usize) -> Vec<u8> {
    if k == 6 {
        // one OSC whose payload is larger than 64 KiB (clipboard transfers are): no offset may be kept in 16 bits
        let mut v = b"x\x1b]52;c;".to_vec();
        v.extend(std::iter::repeat(b'Q').take(60000));
        v.push(b';');
        v.extend(std::iter::repeat(b'R').take(10000));      // a field that starts below and ends above offset 65536
        v.extend_from_slice(b";tail\x07y\x1b]0;t\x1b\\z");
        return v;
    }
    if k % 16 == 14 {
        // the deterministic limit family (30..34 separators, 14..17 OSC fields, 1..4 intermediates), both halves
        return crate::gen::limit_family(k / 16);
    }
    match k % 8 {
        0 | 1 => gen_stream(r, target, Flavor::Full),
        2 => gen_stream(r, target, Flavor::Utf8),
        3 => gen_styled_text(r, target, true),
        4 => (0..target).map(|_| r.byte()).collect(),
        5 => {
            // arbitrary Unicode
            let mut s = String::new();
            for _ in 0..target / 2 {
                s.push(crate::gen::gen_char(r));
            }
            s.into_bytes()
        }
        6 => {
            // boundary-rich: long parameter lists, many intermediates, OSC fields
            let mut v = Vec::new();
            for _ in 0..6 {
                crate::gen::gen_csi(r, &mut v);
                crate::gen::gen_osc(r, &mut v, Flavor::Full);
            }
            v
        }
        _ => {
            let mut v = b"\x1b[".to_vec();
            for _ in 0..r.range(30, 40) {
                v.extend_from_slice(r.below(70000).to_string().as_bytes());
                v.push(if r.chance(1, 2) { b';' } else { b':' });
            }
            v.push(b'm');
            v
        }
    }
}

pub fn run(seed: u64, n: u64, target: usize, path: &str) -> Value {
    let mut w = crate::out_file(path);
    let mut r = Rng::new(seed);
    let mut calls = 0u64;
    let mut distinct = std::collections::HashSet::new();
    for k in 0..n {
        let input = inputs(&mut r, k, target);
        {
            use std::hash::{Hash, Hasher};
            let mut h = std::collections::hash_map::DefaultHasher::new();
            input.hash(&mut h);
            distinct.insert(h.finish());
        }
        let mut apis = Vec::new();
        let mut dbg = json!({"inter":-1,"osc":-1,"params":-1});
        apis.push(guard("Parser::advance", || {
            let mut p = crate::vt::P::new();
            let mut rec = crate::vt::Rec(vec![]);
            for b in &input {
                p.advance(&mut rec, *b);
                rec.0.clear();
            }
            let d = format!("{:?}", p);
            dbg = json!({"inter":dbg_num(&d, "intermediate_idx"),"osc":dbg_num(&d, "osc_num_params"),"params":dbg_num(&d, "len")});
            true
        }));
        apis.push(guard("strip_bytes", || anstream::adapter::strip_bytes(&input).all(|p| inside(&input, p))));
        apis.push(guard("StripBytes(1)", || {
            let mut s = anstream::adapter::StripBytes::new();
            input.chunks(1).all(|c| s.strip_next(c).all(|p| inside(c, p)))
        }));
        apis.push(guard("StripBytes(7)", || {
            let mut s = anstream::adapter::StripBytes::new();
            input.chunks(7).all(|c| s.strip_next(c).all(|p| inside(c, p)))
        }));
        apis.push(guard("WinconBytes", || {
            let mut s = anstream::adapter::WinconBytes::new();
            input.chunks(5).all(|c| s.extract_next(c).all(|(_, t)| std::str::from_utf8(t.as_bytes()).is_ok()))
        }));
        apis.push(guard("StripStream::write_all", || {
            let mut s = anstream::StripStream::new(Vec::new());
            s.write_all(&input).is_ok()
        }));
        apis.push(guard("AutoStream::never.write", || {
            let mut s = anstream::AutoStream::never(Vec::new());
            let mut p = 0;
            while p < input.len() {
                p += s.write(&input[p..]).unwrap().max(1);
            }
            true
        }));
        // the strip stream over an inner writer that accepts at most `lim` bytes per call and is interrupted now and then
        // (the short-write recovery and error paths are only reachable this way)
        for lim in [1usize, 2, 3, 5] {
            let name = ["", "StripStream::write(short 1)", "StripStream::write(short 2)", "StripStream::write(short 3)", "", "StripStream::write(short 5)"][lim];
            apis.push(guard(name, || {
                struct Lim(usize, u64, Vec<u8>);
                impl Write for Lim {
                    fn write(&mut self, b: &[u8]) -> std::io::Result<usize> {
                        self.1 += 1;
                        if self.1 % 7 == 3 {
                            return Err(std::io::ErrorKind::Interrupted.into());
                        }
                        let n = b.len().min(self.0);
                        self.2.extend_from_slice(&b[..n]);
                        Ok(n)
                    }
                    fn flush(&mut self) -> std::io::Result<()> {
                        Ok(())
                    }
                }
                let inner: Box<dyn Write> = Box::new(Lim(lim, 0, Vec::new()));
                let mut s = anstream::StripStream::new(inner);
                let mut p = 0;
                let mut guard_n = 0;
                while p < input.len() && guard_n < 4 * input.len() + 16 {
                    guard_n += 1;
                    let end = (p + 1 + (guard_n * 7) % 23).min(input.len());
                    match if guard_n % 5 == 0 { s.write_vectored(&[std::io::IoSlice::new(&[]), std::io::IoSlice::new(&input[p..end])]) } else { s.write(&input[p..end]) } {
                        Ok(n) => {
                            if n > end - p {
                                return false;
                            }
                            p += n;
                        }
                        Err(e) if e.kind() == std::io::ErrorKind::Interrupted => {}
                        Err(_) => return false,
                    }
                }
                true
            }));
        }
        if let Ok(text) = std::str::from_utf8(&input) {
            apis.push(guard("strip_str", || anstream::adapter::strip_str(text).all(|p| inside(&input, p.as_bytes()) && std::str::from_utf8(p.as_bytes()).is_ok())));
            apis.push(guard("StripStr(chars)", || {
                let mut s = anstream::adapter::StripStr::new();
                let mut ok = true;
                let mut start = 0;
                for (i, _) in text.char_indices().skip(1).chain(std::iter::once((text.len(), ' '))) {
                    let c = &text[start..i];
                    ok &= s.strip_next(c).all(|p| inside(c.as_bytes(), p.as_bytes()) && std::str::from_utf8(p.as_bytes()).is_ok());
                    start = i;
                }
                ok
            }));
            apis.push(guard("anstyle_git::parse", || {
                let _ = anstyle_git::parse(text);
                let _ = anstyle_git::parse(&text.replace('\x1b', " #"));
                true
            }));
            apis.push(guard("anstyle_ls::parse", || {
                let _ = anstyle_ls::parse(text);
                let _ = anstyle_ls::parse(&text.replace('\x1b', ";"));
                true
            }));
            // words shaped like the parsers' own syntax built from the input's characters: `#` + 1..6 characters
            // (hex colours are sliced by BYTE index), signed numbers, separators
            apis.push(guard("anstyle_git::parse(shaped)", || {
                let chars: Vec<char> = text.chars().filter(|c| !c.is_whitespace()).take(48).collect();
                for w in 1..=6 {
                    for win in chars.windows(w).take(24) {
                        let word: String = win.iter().collect();
                        let _ = anstyle_git::parse(&format!("#{word}"));
                        let _ = anstyle_git::parse(&format!("bold #{word} #1{word}"));
                        let _ = anstyle_git::parse(&format!("#12{word}"));
                        let _ = anstyle_git::parse(&format!("#1234{word}"));
                        let _ = anstyle_git::parse(&format!("no{word} -{word} +{word} bright{word}"));
                    }
                }
                // prefixes in front of every OTHER spelling of a colour or attribute (a prefix does not make the rest a colour name)
                for pre in ["bright", "no", "no-", "-", "+", "BRIGHT", "brightbright"] {
                    for rest in ["normal", "default", "-1", "0", "7", "8", "15", "255", "256", "#fff", "#00ff00", "bold", "ul", "reset", "", "red"] {
                        let _ = anstyle_git::parse(&format!("{pre}{rest}"));
                        let _ = anstyle_git::parse(&format!("bold {pre}{rest} {pre}{rest}"));
                    }
                }
                true
            }));
            apis.push(guard("render(parsed styles)", || {
                // styles that came out of the parsers are rendered (Display and reset form): text -> style -> escape codes
                for spec in ["58;2;100;100;100", "58;2;255;255;255;4", "38;2;255;255;255;48;2;255;255;255;58;2;255;255;255;1;3;4;9", "58;5;255", "4;58;2;199;200;201"] {
                    if let Some(st) = anstyle_ls::parse(spec) {
                        let _ = format!("{}{:#}", st, st);
                    }
                }
                for spec in ["#ffffff #ffffff bold ul", "255 255 italic strike", "red #c8c8c8 reverse"] {
                    if let Ok(st) = anstyle_git::parse(spec) {
                        let _ = format!("{}{:#}", st, st);
                    }
                }
                if let Some(st) = anstyle_ls::parse(text) {
                    let _ = format!("{}{:#}", st, st);
                }
                true
            }));
            apis.push(guard("anstyle_ls::parse(shaped)", || {
                let chars: Vec<char> = text.chars().filter(|c| !c.is_whitespace()).take(32).collect();
                for w in 1..=4 {
                    for win in chars.windows(w).take(16) {
                        let word: String = win.iter().collect();
                        let _ = anstyle_ls::parse(&format!("38;5;{word}"));
                        let _ = anstyle_ls::parse(&format!("{word};48;2;1;{word};3"));
                        let _ = anstyle_ls::parse(&format!("01;{word}"));
                    }
                }
                for n in [255u64, 256, 65535, 65536, 4294967295, 4294967296, 18446744073709551615] {
                    let _ = anstyle_ls::parse(&format!("{n}"));
                    let _ = anstyle_ls::parse(&format!("38;5;{n}"));
                    let _ = anstyle_ls::parse(&format!("38;2;{n};0;{n}0"));
                }
                true
            }));
        }
        // lossy conversion with an arbitrary palette
        apis.push(guard("anstyle_lossy", || {
            let mut p = [anstyle::RgbColor(0, 0, 0); 16];
            for (i, e) in p.iter_mut().enumerate() {
                let b = |k: usize| input.get((i * 3 + k) % input.len().max(1)).copied().unwrap_or(0);
                *e = anstyle::RgbColor(b(0), b(1), b(2));
            }
            let pal = anstyle_lossy::palette::Palette(p);
            // the darkest greys and the extremes (shortcuts for exact hits compute offsets from the channel value)
            for g in (0u8..=17).chain(246..=255) {
                let rgb = anstyle::RgbColor(g, g, g);
                let _ = anstyle_lossy::rgb_to_ansi(rgb, pal);
                let _ = anstyle_lossy::rgb_to_xterm(rgb);
                let _ = anstyle_lossy::color_to_xterm(anstyle::Color::Rgb(rgb));
            }
            for c in input.chunks(3).take(40) {
                let rgb = anstyle::RgbColor(c[0], *c.get(1).unwrap_or(&0), *c.get(2).unwrap_or(&255));
                let _ = anstyle_lossy::rgb_to_ansi(rgb, pal);
                let _ = anstyle_lossy::rgb_to_xterm(rgb);
                let _ = anstyle_lossy::xterm_to_ansi(anstyle::Ansi256Color(c[0]), pal);
                let _ = anstyle_lossy::color_to_rgb(anstyle::Color::Ansi256(anstyle::Ansi256Color(c[0])), pal);
            }
            true
        }));
        calls += apis.len() as u64;
        writeln!(w, "{}", json!({"n":input.len(),"in":if input.len() <= 64 { json!(input) } else { json!(input[..64]) },"apis":apis,"dbg":dbg})).unwrap();
    }
    w.flush().unwrap();
    json!({"summary":{"inputs":n,"calls":calls,"distinct":distinct.len()}})
}
