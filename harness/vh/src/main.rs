fn main() { println!("hello"); }
