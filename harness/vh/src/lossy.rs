//! C10: lossy colour conversions.  The harness sweeps RGB space with a transliteration of the specification's
//! Nearest operator ONLY to aim the sample (disagreements, ties, boundaries); every forwarded colour is judged by TLC.
use crate::rng::Rng;
use crate::style::{ansi_index, col_json, ANSI};
use anstyle::{Ansi256Color, Color, RgbColor};
use anstyle_lossy::palette::{Palette, VGA, WIN10_CONSOLE};
use serde_json::{json, Value};
use std::io::Write;

fn xterm(i: usize) -> [i64; 3] {
    const LV: [i64; 6] = [0, 95, 135, 175, 215, 255];
    if i < 232 {
        let k = i - 16;
        [LV[k / 36], LV[(k / 6) % 6], LV[k % 6]]
    } else {
        let g = 8 + 10 * (i as i64 - 232);
        [g, g, g]
    }
}
fn dist(c: [i64; 3], p: [i64; 3]) -> i64 {
    let rs = c[0] + p[0];
    (1024 + rs) * (c[0] - p[0]).pow(2) + 2048 * (c[1] - p[1]).pow(2) + (1534 - rs) * (c[2] - p[2]).pow(2)
}
/// (best index, is there a tie or near-tie between the two best)
fn nearest(c: [i64; 3], cands: &[[i64; 3]], base: usize) -> (usize, bool) {
    let mut best = 0;
    let mut bd = i64::MAX;
    let mut second = i64::MAX;
    for (k, p) in cands.iter().enumerate() {
        let d = dist(c, *p);
        if d < bd {
            second = bd;
            bd = d;
            best = k;
        } else if d < second {
            second = d;
        }
    }
    (best + base, second - bd <= 2048)
}

fn pal_json(p: &Palette) -> Value {
    json!(p.0.iter().map(|c| json!([c.r(), c.g(), c.b()])).collect::<Vec<_>>())
}
fn pal_cands(p: &Palette) -> Vec<[i64; 3]> {
    p.0.iter().map(|c| [c.r() as i64, c.g() as i64, c.b() as i64]).collect()
}

/// conversions under catch_unwind: a panic becomes a value no specification accepts (index 9999, channel 999)
mod guarded {
    use anstyle::{AnsiColor, Ansi256Color, Color, RgbColor};
    use anstyle_lossy::palette::Palette;
    use std::panic::{catch_unwind, AssertUnwindSafe};
    pub fn rgb_to_xterm(c: RgbColor) -> usize {
        catch_unwind(AssertUnwindSafe(|| anstyle_lossy::rgb_to_xterm(c).0 as usize)).unwrap_or(9999)
    }
    pub fn color_to_xterm(c: Color) -> usize {
        catch_unwind(AssertUnwindSafe(|| anstyle_lossy::color_to_xterm(c).0 as usize)).unwrap_or(9999)
    }
    pub fn rgb_to_ansi(c: RgbColor, p: Palette) -> usize {
        catch_unwind(AssertUnwindSafe(|| super::ansi_index(anstyle_lossy::rgb_to_ansi(c, p)))).unwrap_or(9999)
    }
    pub fn xterm_to_ansi(c: Ansi256Color, p: Palette) -> usize {
        catch_unwind(AssertUnwindSafe(|| super::ansi_index(anstyle_lossy::xterm_to_ansi(c, p)))).unwrap_or(9999)
    }
    pub fn color_to_ansi(c: Color, p: Palette) -> usize {
        catch_unwind(AssertUnwindSafe(|| super::ansi_index(anstyle_lossy::color_to_ansi(c, p)))).unwrap_or(9999)
    }
    pub fn xterm_to_rgb(c: Ansi256Color, p: Palette) -> [u32; 3] {
        catch_unwind(AssertUnwindSafe(|| { let x = anstyle_lossy::xterm_to_rgb(c, p); [x.r() as u32, x.g() as u32, x.b() as u32] })).unwrap_or([999, 999, 999])
    }
    pub fn color_to_rgb(c: Color, p: Palette) -> [u32; 3] {
        catch_unwind(AssertUnwindSafe(|| { let x = anstyle_lossy::color_to_rgb(c, p); [x.r() as u32, x.g() as u32, x.b() as u32] })).unwrap_or([999, 999, 999])
    }
    pub fn ansi_to_rgb(c: AnsiColor, p: Palette) -> [u32; 3] {
        catch_unwind(AssertUnwindSafe(|| { let x = anstyle_lossy::ansi_to_rgb(c, p); [x.r() as u32, x.g() as u32, x.b() as u32] })).unwrap_or([999, 999, 999])
    }
}

pub fn palettes(r: &mut Rng, n_random: usize) -> Vec<(String, Palette)> {
    let mut v = vec![("VGA".to_string(), VGA), ("WIN10".to_string(), WIN10_CONSOLE)];
    // duplicates: bright = normal
    let mut dup = VGA.0;
    for i in 0..8 {
        dup[i + 8] = dup[i];
    }
    v.push(("dup".into(), Palette(dup)));
    // extremes and repeated entries
    let mut ext = [RgbColor(0, 0, 0); 16];
    for (i, e) in ext.iter_mut().enumerate() {
        *e = match i % 4 {
            0 => RgbColor(0, 0, 0),
            1 => RgbColor(255, 255, 255),
            2 => RgbColor(255, 0, 0),
            _ => RgbColor(0, 255, 255),
        };
    }
    v.push(("extreme".into(), Palette(ext)));
    // near-copies of a built-in palette: every slot keeps one or two channels of VGA / WIN10 (a shortcut keyed on "is this the
    // built-in palette" must compare whole entries), and VGA with a single slot replaced
    let mut near = VGA.0;
    for (i, e) in near.iter_mut().enumerate() {
        *e = match i % 3 {
            0 => RgbColor(e.r(), e.g(), e.b() ^ 0x5f),
            1 => RgbColor(e.r() ^ 0x33, e.g(), e.b()),
            _ => RgbColor(e.r(), e.g() ^ 0x77, e.b() ^ 0x11),
        };
    }
    v.push(("near_vga".into(), Palette(near)));
    // every entry far from one corner of the cube: near-white / pastel only (a "no candidate yet" value must exceed every distance)
    let mut pastel = [RgbColor(255, 255, 255); 16];
    pastel[5] = RgbColor(255, 255, 0);
    pastel[9] = RgbColor(250, 240, 255);
    pastel[14] = RgbColor(255, 250, 205);
    v.push(("near_white".into(), Palette(pastel)));
    let mut dark = [RgbColor(0, 0, 0); 16];
    dark[3] = RgbColor(0, 0, 9);
    dark[11] = RgbColor(12, 0, 0);
    v.push(("near_black".into(), Palette(dark)));
    // one repeated entry only (BrightWhite = White), the other bright entries distinct
    let mut one_dup = VGA.0;
    one_dup[15] = one_dup[7];
    v.push(("vga_15eq7".into(), Palette(one_dup)));
    let mut one = VGA.0;
    one[4] = RgbColor(0, 0, 215);
    one[3] = RgbColor(255, 255, 0);
    v.push(("vga_two_slots".into(), Palette(one)));
    let mut near10 = WIN10_CONSOLE.0;
    for (i, e) in near10.iter_mut().enumerate() {
        if i % 2 == 1 {
            *e = RgbColor(e.b(), e.g(), e.r());
        }
    }
    v.push(("near_win10".into(), Palette(near10)));
    for k in 0..n_random {
        let mut p = [RgbColor(0, 0, 0); 16];
        for e in p.iter_mut() {
            *e = RgbColor(r.byte(), r.byte(), r.byte());
        }
        v.push((format!("rand{k}"), Palette(p)));
    }
    v
}

pub fn record(seed: u64, thorough: bool, shards: usize, prefix: &str) -> Value {
    let mut files: Vec<_> = (0..shards).map(|k| crate::out_file(&format!("{prefix}-{k}.ndjson"))).collect();
    let mut n = 0usize;
    let mut emit = |v: Value| {
        writeln!(files[n % shards], "{v}").unwrap();
        n += 1;
    };
    let mut r = Rng::new(seed);
    let pals = palettes(&mut r, if thorough { 6 } else { 2 });
    let xt: Vec<[i64; 3]> = (16..256).map(xterm).collect();
    let (mut swept, mut disagreements, mut ties) = (0u64, 0u64, 0u64);
    // small conversions: exhaustive
    for (_, p) in &pals {
        let pj = pal_json(p);
        for i in 0..=255u8 {
            let c = guarded::xterm_to_rgb(Ansi256Color(i), *p);
            emit(json!({"op":"xterm_to_rgb","i":i,"pal":pj,"r":c}));
            emit(json!({"op":"xterm_to_ansi","i":i,"pal":pj,"r":guarded::xterm_to_ansi(Ansi256Color(i), *p)}));
            let col = Color::Ansi256(Ansi256Color(i));
            let c = guarded::color_to_rgb(col, *p);
            emit(json!({"op":"color_to_rgb","col":col_json(Some(col)),"pal":pj,"r":c}));
            emit(json!({"op":"color_to_ansi","col":col_json(Some(col)),"pal":pj,"r":guarded::color_to_ansi(col, *p)}));
            emit(json!({"op":"color_to_xterm","col":col_json(Some(col)),"r":guarded::color_to_xterm(col)}));
        }
        for (k, a) in ANSI.iter().enumerate() {
            let c = guarded::ansi_to_rgb(*a, *p);
            let g = p.get(*a);
            let ix = p[*a];
            emit(json!({"op":"ansi_to_rgb","k":k,"pal":pj,"r":c,"get":[g.r(), g.g(), g.b()],"index":[ix.r(), ix.g(), ix.b()]}));
            let col = Color::Ansi(*a);
            let c = guarded::color_to_rgb(col, *p);
            emit(json!({"op":"color_to_rgb","col":col_json(Some(col)),"pal":pj,"r":c}));
            emit(json!({"op":"color_to_ansi","col":col_json(Some(col)),"pal":pj,"r":guarded::color_to_ansi(col, *p)}));
            emit(json!({"op":"color_to_xterm","col":col_json(Some(col)),"r":guarded::color_to_xterm(col)}));
            // exact palette entries map to themselves (lowest duplicate)
            emit(json!({"op":"rgb_to_ansi","c":[g.r(), g.g(), g.b()],"pal":pj,"r":guarded::rgb_to_ansi(g, *p)}));
        }
    }
    // every exact entry of the 256-colour table
    for i in 16..256usize {
        let c = xterm(i);
        let rgb = RgbColor(c[0] as u8, c[1] as u8, c[2] as u8);
        emit(json!({"op":"rgb_to_xterm","c":c,"r":guarded::rgb_to_xterm(rgb)}));
        let col = Color::Rgb(rgb);
        emit(json!({"op":"color_to_xterm","col":col_json(Some(col)),"r":guarded::color_to_xterm(col)}));
    }
    // sweep: all 2^24 (thorough) or a 2^18 lattice with a seeded offset (quick)
    let step: usize = if thorough { 1 } else { 4 };
    let off = if thorough { 0 } else { (seed % 4) as usize };
    let cap = if thorough { 4000 } else { 300 };
    let sample_every = if thorough { 40000 } else { 600 };
    let (mut fwd_dis, mut fwd_tie) = (0usize, 0usize);
    let mut fwd_dis_a = vec![0usize; pals.len()];
    let mut fwd_tie_a = vec![0usize; pals.len()];
    let mut counter = 0usize;
    // quick: the seeded lattice, then a boundary lattice (channel values within 2 of a cube level, of either end of the grey
    // ramp and of 0/255) - exact-hit shortcuts and early exits go wrong next to the fixed colours, not in the middle
    let mut boundary: Vec<usize> = Vec::new();
    for centre in [0i64, 4, 8, 95, 135, 175, 215, 238, 248, 255, 128] {
        for d in -2i64..=2 {
            let v = centre + d;
            if (0..256).contains(&v) && !boundary.contains(&(v as usize)) {
                boundary.push(v as usize);
            }
        }
    }
    let passes: Vec<Vec<usize>> = if thorough { vec![(0..256).collect()] } else { vec![(off..256).step_by(step).collect(), boundary] };
    for vals in &passes {
    for &rr in vals {
        for &gg in vals {
            for &bb in vals {
                let c = [rr as i64, gg as i64, bb as i64];
                let rgb = RgbColor(rr as u8, gg as u8, bb as u8);
                swept += 1;
                counter += 1;
                let got = guarded::rgb_to_xterm(rgb);
                let (want, tie) = nearest(c, &xt, 16);
                let mut forward = counter % sample_every == 0;
                if got != want {
                    disagreements += 1;
                    if fwd_dis < cap {
                        fwd_dis += 1;
                        forward = true;
                    }
                } else if tie {
                    ties += 1;
                    if fwd_tie < cap {
                        fwd_tie += 1;
                        forward = true;
                    }
                }
                if forward {
                    emit(json!({"op":"rgb_to_xterm","c":c,"r":got}));
                }
                for (pi, (_, p)) in pals.iter().enumerate() {
                    if !thorough && pi >= 3 && counter % 7 != 0 {
                        continue;
                    }
                    let cands = pal_cands(p);
                    let got = guarded::rgb_to_ansi(rgb, *p);
                    let (want, tie) = nearest(c, &cands, 0);
                    let mut forward = counter % (sample_every * 3) == pi;
                    if got != want {
                        disagreements += 1;
                        if fwd_dis_a[pi] < cap / 2 {
                            fwd_dis_a[pi] += 1;
                            forward = true;
                        }
                    } else if tie {
                        ties += 1;
                        if fwd_tie_a[pi] < cap / 2 {
                            fwd_tie_a[pi] += 1;
                            forward = true;
                        }
                    }
                    if forward {
                        emit(json!({"op":"rgb_to_ansi","c":c,"pal":pal_json(p),"r":got}));
                    }
                }
            }
        }
    }
    }
    // seeded random colours through the colour-level entry points
    for _ in 0..(if thorough { 4000 } else { 400 }) {
        let rgb = RgbColor(r.byte(), r.byte(), r.byte());
        let col = Color::Rgb(rgb);
        let (_, p) = &pals[r.below(pals.len())];
        emit(json!({"op":"color_to_xterm","col":col_json(Some(col)),"r":guarded::color_to_xterm(col)}));
        emit(json!({"op":"color_to_ansi","col":col_json(Some(col)),"pal":pal_json(p),"r":guarded::color_to_ansi(col, *p)}));
        let c = guarded::color_to_rgb(col, *p);
        emit(json!({"op":"color_to_rgb","col":col_json(Some(col)),"pal":pal_json(p),"r":c}));
    }
    for f in files.iter_mut() {
        f.flush().unwrap();
    }
    json!({"summary":{"events":n,"swept":swept,"sweep_disagreements":disagreements,"sweep_ties":ties,"palettes":pals.iter().map(|p| p.0.clone()).collect::<Vec<_>>()}})
}
