//! C02 / C20: the parser's callbacks as JSON events (same shape as spec/VtParser.tla's Ev* records).
use anstyle_parse::{Params, Parser, Perform};
use serde_json::{json, Value};

pub struct Rec(pub Vec<Value>);

fn pj(p: &Params) -> Value {
    Value::Array(p.iter().map(|g| json!(g)).collect())
}

impl Perform for Rec {
    fn print(&mut self, c: char) {
        self.0.push(json!({"k":"print","c":c as u32}));
    }
    fn execute(&mut self, b: u8) {
        self.0.push(json!({"k":"exec","b":b}));
    }
    fn hook(&mut self, p: &Params, i: &[u8], ign: bool, b: u8) {
        self.0.push(json!({"k":"hook","p":pj(p),"i":i,"ign":ign,"b":b,"n":p.len(),"d":format!("{:?}", p)}));
        debug_assert_eq!(p.is_empty(), p.len() == 0);
    }
    fn put(&mut self, b: u8) {
        self.0.push(json!({"k":"put","b":b}));
    }
    fn unhook(&mut self) {
        self.0.push(json!({"k":"unhook"}));
    }
    fn osc_dispatch(&mut self, p: &[&[u8]], bell: bool) {
        self.0.push(json!({"k":"osc","f":p,"bell":bell}));
    }
    fn csi_dispatch(&mut self, p: &Params, i: &[u8], ign: bool, b: u8) {
        self.0.push(json!({"k":"csi","p":pj(p),"i":i,"ign":ign,"b":b,"n":p.len(),"d":format!("{:?}", p)}));
        debug_assert_eq!(p.is_empty(), p.len() == 0);
    }
    fn esc_dispatch(&mut self, i: &[u8], ign: bool, b: u8) {
        self.0.push(json!({"k":"esc","i":i,"ign":ign,"b":b}));
    }
}

pub type P = Parser<anstyle_parse::DefaultCharAccumulator>;

thread_local!(static CLONE_TICK: std::cell::Cell<u64> = std::cell::Cell::new(0));

/// advance one byte; a panic inside the parser is data: event {"k":"panic"} and a fresh parser
pub fn advance(p: &mut P, b: u8) -> Vec<Value> {
    let mut r = Rec(vec![]);
    // every fifth byte goes to a CLONE of the parser, which then takes the original's place: a copy made at any point of the
    // stream - inside a sequence, a string, a character - carries everything the original knew
    let n = CLONE_TICK.with(|c| {
        c.set(c.get() + 1);
        c.get()
    });
    if n % 5 == 0 {
        let q = p.clone();
        *p = q;
    }
    let res = std::panic::catch_unwind(std::panic::AssertUnwindSafe(|| {
        p.advance(&mut r, b);
    }));
    if res.is_err() {
        r.0.push(json!({"k":"panic"}));
        *p = P::new();
    }
    r.0
}

pub fn run_all(bytes: &[u8]) -> Vec<Vec<Value>> {
    let mut p = P::new();
    bytes.iter().map(|b| advance(&mut p, *b)).collect()
}

/// dump the transition function as lines "<state> <byte> <next> <action>"
pub fn dump_table() {
    use anstyle_parse::state::{state_change, State};
    let states = [
        State::CsiEntry,
        State::CsiIgnore,
        State::CsiIntermediate,
        State::CsiParam,
        State::DcsEntry,
        State::DcsIgnore,
        State::DcsIntermediate,
        State::DcsParam,
        State::DcsPassthrough,
        State::Escape,
        State::EscapeIntermediate,
        State::Ground,
        State::OscString,
        State::SosPmApcString,
    ];
    for s in states {
        for b in 0..=255u8 {
            let (n, a) = state_change(s, b);
            println!("{:?} {} {:?} {:?}", s, b, n, a);
        }
    }
}
