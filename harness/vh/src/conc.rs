//! C19: child processes for the concurrency checks.
//!  print-child : threads print multi-fragment records through anstream::stdout()/stderr() and the print macros
//!  choice-child: threads read and write the global ColorChoice; prints the invocation/response history
use serde_json::json;
use std::io::Write;
use std::sync::atomic::{AtomicU64, Ordering};
use std::sync::{Arc, Barrier};

/// a print whose format string has NO run-time argument (a compile-time literal with sequences between its three fragments); the
/// record is the same every time, so it travels under a thread number of its own (40 + t) with call number 1
macro_rules! lit_rec {
    ($t:literal) => {
        // (sequences inside the payloads too: every one of them is a place where the call's output could come apart)
        concat!("<", $t, ",1,1,3|l\x1b[1mi\x1b[0mt\x1b[3me\x1b[0mr\x1b[4ma\x1b[0ml>\x1b[1m<", $t, ",1,2,3|\x1b[0mm\x1b[31mi\x1b[32md\x1b[33m \x1b[34mt\x1b[35me\x1b[36mx\x1b[0mt>\x1b[4m<", $t, ",1,3,3|e\x1b[1mn\x1b[2md\x1b[m>")
    };
}
macro_rules! lit_print {
    ($mac:ident, $t:expr) => {
        match $t {
            1 => anstream::$mac!(lit_rec!(41)), 2 => anstream::$mac!(lit_rec!(42)), 3 => anstream::$mac!(lit_rec!(43)), 4 => anstream::$mac!(lit_rec!(44)),
            5 => anstream::$mac!(lit_rec!(45)), 6 => anstream::$mac!(lit_rec!(46)), 7 => anstream::$mac!(lit_rec!(47)), 8 => anstream::$mac!(lit_rec!(48)),
            9 => anstream::$mac!(lit_rec!(49)), 10 => anstream::$mac!(lit_rec!(50)), 11 => anstream::$mac!(lit_rec!(51)), 12 => anstream::$mac!(lit_rec!(52)),
            13 => anstream::$mac!(lit_rec!(53)), 14 => anstream::$mac!(lit_rec!(54)), 15 => anstream::$mac!(lit_rec!(55)), _ => anstream::$mac!(lit_rec!(56)),
        }
    };
}

fn frag(t: usize, c: usize, f: usize, n: usize, pay: &str) -> String {
    format!("<{t},{c},{f},{n}|{pay}>")
}

pub fn print_child(threads: usize, calls: usize, stream: &str) {
    let stream = stream.to_string();
    let hs: Vec<_> = (1..=threads)
        .map(|t| {
            let stream = stream.clone();
            std::thread::spawn(move || {
                let mut r = crate::rng::Rng::new(t as u64 * 7919);
                // every thread first issues prints whose format string has no arguments (a bare newline): whatever such a
                // call does to per-thread state must not outlive it
                if stream == "stdout" {
                    anstream::println!();
                    writeln!(anstream::stdout()).unwrap();
                    anstream::print!("\n");
                } else {
                    anstream::eprintln!();
                    writeln!(anstream::stderr()).unwrap();
                    anstream::eprint!("\n");
                }
                // one stream object per thread that is kept and reused for some of the calls (state carried by the object must not
                // delay bytes of a finished call)
                let pass = std::env::var_os("CLICOLOR_FORCE").is_some();
                let mut kept_out = anstream::stdout();
                let mut kept_err = anstream::stderr();
                for c in 1..=calls {
                    let pad = "x".repeat(r.below(40));
                    // every fourth thread prints every second record through an explicit lock handle (a holder of the stream's own lock that
                    // takes no part in any other arrangement the other calls may have among themselves)
                    let kind = if t % 4 == 0 && c % 2 == 0 { 13 } else { (c + t) % 17 };
                    // calls that end with a newline of their own (println!, a "\n" in the format string, writeln!, a record ending in
                    // "\n") announce 4 fragments: the newline right after the third is the fourth and belongs to the same call
                    let n = if matches!(kind, 0 | 1 | 2 | 4) { 4 } else { 3 };
                    // an escape sequence split across the first two fragments, one inside the third
                    let a = format!("{}\x1b[3", frag(t, c, 1, n, &pad));
                    let b = format!("1m{}", frag(t, c, 2, n, "\x1b[0mmid"));
                    let d = frag(t, c, 3, n, "end\x1b[m");
                    match kind {
                        0 => {
                            if stream == "stdout" { anstream::println!("{}{}{}", a, b, d) } else { anstream::eprintln!("{}{}{}", a, b, d) }
                        }
                        1 => {
                            if stream == "stdout" { anstream::print!("{}{}{}\n", a, b, d) } else { anstream::eprint!("{}{}{}\n", a, b, d) }
                        }
                        2 => {
                            if stream == "stdout" { writeln!(anstream::stdout(), "{}{}{}", a, b, d).unwrap() } else { writeln!(anstream::stderr(), "{}{}{}", a, b, d).unwrap() }
                        }
                        6 => {
                            // ONE formatted print of more than 8 KiB in several arguments (longer than any intermediate buffer)
                            let big1 = "p".repeat(3000 + r.below(2000));
                            let big2 = "q".repeat(4000 + r.below(2000));
                            let a = format!("{}\x1b[3", frag(t, c, 1, 3, &big1));
                            let b = format!("1m{}", frag(t, c, 2, 3, &big2));
                            if stream == "stdout" { anstream::print!("{}{}{}", a, b, d) } else { anstream::eprint!("{}{}{}", a, b, d) }
                        }
                        9 => {
                            // ONE formatted print whose arguments contain line breaks: still one call
                            let a2 = format!("{}\n\x1b[3", frag(t, c, 1, 3, &pad));
                            let b2 = format!("1m\n{}", frag(t, c, 2, 3, "\x1b[0mmid\n"));
                            if stream == "stdout" { anstream::print!("{}{}{}", a2, b2, d) } else { anstream::eprint!("{}{}{}", a2, b2, d) }
                        }
                        10 => {
                            // write_all on the KEPT stream object of a buffer that ends inside a multi-byte character (the first two bytes
                            // of U+20AC); the third byte opens the next buffer.  The two leading bytes belong to THIS call.
                            let mut rec = frag(t, c, 1, 2, &pad).into_bytes();
                            rec.extend_from_slice(b"\xe2\x82");
                            let rest = b"\xac\n";
                            // (between the two calls on the kept object the same thread prints a record through another object: whatever
                            // the first call owed has to be out by then - on any schedule)
                            if stream == "stdout" {
                                kept_out.write_all(&rec).unwrap();
                                lit_print!(print, t);
                                kept_out.write_all(rest).unwrap();
                            } else {
                                kept_err.write_all(&rec).unwrap();
                                lit_print!(eprint, t);
                                kept_err.write_all(rest).unwrap();
                            }
                        }
                        11 => {
                            // write_all on the KEPT stream object of a buffer that ends INSIDE an escape sequence ("ESC ["); the rest ("0m")
                            // opens the next buffer.  In pass-through mode the two bytes belong to this call (second fragment); when
                            // stripping they produce nothing.  Whatever the object remembers must not leak into other threads' prints.
                            let mut rec = frag(t, c, 1, if pass { 2 } else { 1 }, &pad).into_bytes();
                            rec.extend_from_slice(b"\x1b[");
                            let rest = b"0m\n";
                            // (between the two calls on the kept object the same thread prints a record through another object: whatever
                            // the first call owed has to be out by then - on any schedule)
                            if stream == "stdout" {
                                kept_out.write_all(&rec).unwrap();
                                lit_print!(print, t);
                                kept_out.write_all(rest).unwrap();
                            } else {
                                kept_err.write_all(&rec).unwrap();
                                lit_print!(eprint, t);
                                kept_err.write_all(rest).unwrap();
                            }
                        }
                        12 => {
                            // ONE write_all of escape-free text that contains controls which are not shown (BEL, BS): when stripping, the
                            // buffer falls into several runs - still one call
                            // (controls inside the payloads too: every one of them is a place where the call's output could come apart)
                            let bell: String = pad.chars().flat_map(|ch| [ch, '\x07']).take(24).collect();
                            let rec = format!("{}\x07{}\x08{}\n", frag(t, c, 1, 3, &bell), frag(t, c, 2, 3, "m\x08i\x00d"), frag(t, c, 3, 3, "e\x07n\x07d"));
                            if stream == "stdout" { anstream::stdout().write_all(rec.as_bytes()).unwrap() } else { anstream::stderr().write_all(rec.as_bytes()).unwrap() }
                        }
                        13 => {
                            // the record printed through an explicit lock handle, held over three separate calls: everything printed
                            // under the handle is one critical section, and the other threads' single calls stay whole around it
                            if stream == "stdout" {
                                let mut lk = anstream::stdout().lock();
                                write!(lk, "{}", a).unwrap();
                                write!(lk, "{}", b).unwrap();
                                lk.write_all(d.as_bytes()).unwrap();
                            } else {
                                let mut lk = anstream::stderr().lock();
                                write!(lk, "{}", a).unwrap();
                                write!(lk, "{}", b).unwrap();
                                lk.write_all(d.as_bytes()).unwrap();
                            }
                        }
                        14 => {
                            // a print WITHOUT run-time arguments: the literal goes the same way as any formatted output
                            if stream == "stdout" { lit_print!(print, t) } else { lit_print!(eprint, t) }
                        }
                        15 => {
                            // ONE write_all of more than 32 KiB (longer than any piece a size limit would cut it into)
                            let big1 = "p".repeat(17000 + r.below(2000));
                            let big2 = "q".repeat(17000 + r.below(2000));
                            let rec = format!("{}\x1b[31m{}{}", frag(t, c, 1, 3, &big1), frag(t, c, 2, 3, &big2), frag(t, c, 3, 3, "tail\x1b[m"));
                            if stream == "stdout" { anstream::stdout().write_all(rec.as_bytes()).unwrap() } else { anstream::stderr().write_all(rec.as_bytes()).unwrap() }
                        }
                        16 => {
                            // ONE write_all with more than 1024 printable runs (more than one gathered write takes)
                            let many = "x\x1b[1m".repeat(1100);
                            let rec = format!("{}\x1b[31m{}{}", frag(t, c, 1, 3, &pad), frag(t, c, 2, 3, &many), frag(t, c, 3, 3, "tail\x1b[m"));
                            if stream == "stdout" { anstream::stdout().write_all(rec.as_bytes()).unwrap() } else { anstream::stderr().write_all(rec.as_bytes()).unwrap() }
                        }
                        7 => {
                            // a stream built over a BORROWED process stream locks it per call just the same
                            if stream == "stdout" {
                                let mut raw = std::io::stdout();
                                let mut s = anstream::AutoStream::auto(&mut raw);
                                write!(s, "{}{}{}", a, b, d).unwrap();
                            } else {
                                let mut raw = std::io::stderr();
                                let mut s = anstream::AutoStream::auto(&mut raw);
                                write!(s, "{}{}{}", a, b, d).unwrap();
                            }
                        }
                        8 => {
                            // ... and so does one over a boxed process stream; write_all of a record with sequences in the middle
                            let rec = format!("{a}{b}{d}");
                            if stream == "stdout" {
                                let mut s = anstream::AutoStream::auto(Box::new(std::io::stdout()));
                                s.write_all(rec.as_bytes()).unwrap();
                            } else {
                                let mut s = anstream::AutoStream::auto(Box::new(std::io::stderr()));
                                s.write_all(rec.as_bytes()).unwrap();
                            }
                        }
                        3 => {
                            // write_all of one buffer: a line, then a long unterminated tail (longer than std's line buffer)
                            let long = "y".repeat(1100 + r.below(400));
                            let rec = format!("{}\x1b[31m\n{}{}", frag(t, c, 1, 3, &pad), frag(t, c, 2, 3, &long), frag(t, c, 3, 3, "tail\x1b[m"));
                            if stream == "stdout" { anstream::stdout().write_all(rec.as_bytes()).unwrap() } else { anstream::stderr().write_all(rec.as_bytes()).unwrap() }
                        }
                        4 => {
                            let rec = format!("{a}{b}{d}\n");
                            if stream == "stdout" { anstream::stdout().write_all(rec.as_bytes()).unwrap() } else { anstream::stderr().write_all(rec.as_bytes()).unwrap() }
                        }
                        _ => {
                            if stream == "stdout" { write!(anstream::stdout(), "{}{}{}", a, b, d).unwrap() } else { write!(anstream::stderr(), "{}{}{}", a, b, d).unwrap() }
                        }
                    }
                }
            })
        })
        .collect();
    for h in hs {
        h.join().unwrap();
    }
    let _ = std::io::stdout().flush();
}

static SEQ: AtomicU64 = AtomicU64::new(1);

fn val_of(c: colorchoice::ColorChoice) -> u64 {
    match c {
        colorchoice::ColorChoice::Auto => 0,
        colorchoice::ColorChoice::AlwaysAnsi => 1,
        colorchoice::ColorChoice::Always => 2,
        colorchoice::ColorChoice::Never => 3,
    }
}
fn choice_of(v: u64) -> colorchoice::ColorChoice {
    match v {
        0 => colorchoice::ColorChoice::Auto,
        1 => colorchoice::ColorChoice::AlwaysAnsi,
        2 => colorchoice::ColorChoice::Always,
        _ => colorchoice::ColorChoice::Never,
    }
}

pub fn choice_child(threads: usize, rounds: usize, ops: usize, seed: u64, stress: bool, lo: u64, step: u64) {
    let barrier = Arc::new(Barrier::new(threads + 1));
    let mut out = std::io::BufWriter::new(std::io::stdout().lock());
    let mut id = 0u64;
    for round in 0..rounds {
        // stress rounds: long tight loops writing only two values - AlwaysAnsi(1)/Always(2), so that a torn update shows as
        // Auto(0)/Never(3); or Auto(0)/Never(3) ("stress0"), so that a read that settles a default over a concurrent write shows
        let v0 = if stress { lo } else { (round as u64 * 3 + seed) % 4 };
        choice_of(v0).write_global();
        writeln!(out, "{}", json!({"e":"start","id":0,"kind":"w","val":v0})).unwrap();
        let hs: Vec<_> = (0..threads)
            .map(|t| {
                let b = barrier.clone();
                let base = id + (t * ops) as u64;
                std::thread::spawn(move || {
                    let mut r = crate::rng::Rng::new(seed * 1000 + (round * 64 + t) as u64);
                    let mut evs = Vec::new();
                    b.wait();
                    for k in 0..ops {
                        let opid = base + k as u64 + 1;
                        if r.chance(1, 2) {
                            let v = if stress { lo + step * r.below(2) as u64 } else { r.below(4) as u64 };
                            let inv = SEQ.fetch_add(1, Ordering::SeqCst);
                            // a panic inside the operation is data: the write is reported as never completed ("P")
                            let okw = std::panic::catch_unwind(|| choice_of(v).write_global()).is_ok();
                            let res = SEQ.fetch_add(1, Ordering::SeqCst);
                            evs.push((inv, res, opid, if okw { "w" } else { "P" }, v));
                        } else {
                            let inv = SEQ.fetch_add(1, Ordering::SeqCst);
                            let got = std::panic::catch_unwind(|| val_of(colorchoice::ColorChoice::global()));
                            let res = SEQ.fetch_add(1, Ordering::SeqCst);
                            evs.push((inv, res, opid, if got.is_ok() { "r" } else { "P" }, got.unwrap_or(0)));
                        }
                    }
                    b.wait();
                    evs
                })
            })
            .collect();
        barrier.wait();
        barrier.wait();
        let mut all = Vec::new();
        for h in hs {
            all.extend(h.join().unwrap());
        }
        id += (threads * ops) as u64;
        // once the writers have finished the register holds the last write: a final read after everything
        id += 1;
        let inv = SEQ.fetch_add(1, Ordering::SeqCst);
        let v = val_of(colorchoice::ColorChoice::global());
        let res = SEQ.fetch_add(1, Ordering::SeqCst);
        all.push((inv, res, id, "r", v));
        let mut events: Vec<(u64, serde_json::Value)> = Vec::new();
        for (inv, res, opid, kind, v) in all {
            events.push((inv, json!({"e":"inv","id":opid,"kind":kind,"val":v})));
            events.push((res, json!({"e":"res","id":opid,"kind":kind,"val":v})));
        }
        events.sort_by_key(|e| e.0);
        for (_, e) in events {
            writeln!(out, "{e}").unwrap();
        }
    }
    out.flush().unwrap();
}
