//! C06 / C08: StripStream / AutoStream driven through write, write_vectored, write_all and write_fmt
//! against a scripted inner writer; one NDJSON event per call for Trace_StripStream / Trace_AutoStream.
use serde_json::{json, Value};
use std::cell::RefCell;
use std::collections::VecDeque;
use std::io::{self, IoSlice, Write};
use std::panic::{catch_unwind, AssertUnwindSafe};
use std::rc::Rc;

#[derive(Clone, Debug, PartialEq)]
pub enum Resp {
    All,
    Short(usize),
    ErrI,
    ErrW,
    ErrO,
}

pub fn resp_of(v: &Value) -> Resp {
    match v {
        Value::String(s) => match s.as_str() {
            "all" => Resp::All,
            "eI" => Resp::ErrI,
            "eW" => Resp::ErrW,
            "eO" => Resp::ErrO,
            _ => panic!("resp {s}"),
        },
        Value::Number(n) => Resp::Short(n.as_u64().unwrap() as usize),
        _ => panic!("resp"),
    }
}

#[derive(Default)]
pub struct Inner {
    pub script: VecDeque<Resp>,
    pub base: usize,
    pub len: usize,
    /// (offset or -1, len, result, accepted)
    pub log: Vec<(i64, usize, &'static str, usize)>,
    pub delivered: Vec<u8>,
    pub flushes: usize,
    /// end of the last attributed piece inside the caller's buffer (reset per call)
    pub cursor: usize,
}
pub struct Scripted(pub Rc<RefCell<Inner>>);
impl Write for Scripted {
    fn write(&mut self, buf: &[u8]) -> io::Result<usize> {
        let mut s = self.0.borrow_mut();
        let p = buf.as_ptr() as usize;
        let o = if p >= s.base && p + buf.len() <= s.base + s.len {
            (p - s.base) as i64
        } else if s.len > 0 && s.cursor + buf.len() <= s.len {
            // a copy (a `char` argument is encoded on the stack): it belongs right after the previous piece iff the bytes agree
            let caller = unsafe { std::slice::from_raw_parts(s.base as *const u8, s.len) };
            if &caller[s.cursor..s.cursor + buf.len()] == buf {
                s.cursor as i64
            } else {
                -1
            }
        } else {
            -1
        };
        let r = s.script.pop_front().unwrap_or(Resp::All);
        let (tag, k, res) = match r {
            Resp::All => ("ok", buf.len(), Ok(buf.len())),
            Resp::Short(k) => {
                let k = k.min(buf.len());
                ("ok", k, Ok(k))
            }
            Resp::ErrI => ("eI", 0, Err(io::Error::new(io::ErrorKind::Interrupted, "scripted"))),
            Resp::ErrW => ("eW", 0, Err(io::Error::new(io::ErrorKind::WouldBlock, "scripted"))),
            Resp::ErrO => ("eO", 0, Err(io::Error::new(io::ErrorKind::Other, "scripted"))),
        };
        s.log.push((o, buf.len(), tag, k));
        if o >= 0 {
            s.cursor = o as usize + k;
        }
        s.delivered.extend_from_slice(&buf[..k]);
        res
    }
    /// a writer that really gathers (as Vec<u8> and File do): the slices are taken one after the other, each with its own scripted
    /// answer and its own log entry, until one is not taken whole; an error that is due after something was accepted stays in
    /// the script for the next call (a gathered write reports what it took)
    fn write_vectored(&mut self, bufs: &[IoSlice<'_>]) -> io::Result<usize> {
        let mut total = 0usize;
        let mut first = true;
        for b in bufs {
            if b.is_empty() {
                continue;
            }
            if !first {
                let next_is_err = matches!(self.0.borrow().script.front(), Some(Resp::ErrI) | Some(Resp::ErrW) | Some(Resp::ErrO));
                if next_is_err {
                    break;
                }
            }
            first = false;
            let k = self.write(b)?;
            total += k;
            if k < b.len() {
                break;
            }
        }
        Ok(total)
    }
    fn flush(&mut self) -> io::Result<()> {
        self.0.borrow_mut().flushes += 1;
        Ok(())
    }
}

pub fn kind_of(e: &io::Error) -> &'static str {
    match e.kind() {
        io::ErrorKind::Interrupted => "eI",
        io::ErrorKind::WouldBlock => "eW",
        io::ErrorKind::WriteZero => "eZ",
        _ => {
            if e.to_string().contains("formatter error") {
                "eF"
            } else {
                "eO"
            }
        }
    }
}

/// inner writes that arrived as copies (pointer outside the caller's buffer) are attributed greedily
fn attribute(buf: &[u8], log: &mut [(i64, usize, &'static str, usize)], from0: usize) {
    let mut from = from0;
    for e in log.iter_mut() {
        if e.0 >= 0 {
            from = e.0 as usize + e.3;
        }
    }
    let _ = (buf, from);
}

macro_rules! lits {
    ($($l:literal),* $(,)?) => {
        /// format strings without arguments (`Arguments::as_str()` is `Some`): compile-time literals
        pub const LITS: &[&str] = &[$($l),*];
        pub fn write_lit(w: &mut dyn Write, k: usize) -> io::Result<()> {
            let mut i = 0usize;
            $(
                if i == k { return write!(w, $l); }
                i += 1;
            )*
            let _ = i;
            panic!("literal index")
        }
    };
}
lits! {
    "hello", "hello bold world\n", "a\x1b[1mb\x1b[0mc", "\x1b[38;5", ";200mtext", "\x1b]0;title", "\x07after", "x\x1b_payload",
    "still payload", "\x1b\\visible", "caf\u{e9} \u{20ac}\n", "\x1b[31", "m", "\x1b", "[0m\ttab", "plain text with spaces  ", "\x1bP1;2|data",
    "\u{9c}x", "\x1b[4:3mcurly\x1b[4:0m", "\n\n", "end\x1b[", "1;2;3;4;5;6;7;8;9;10m!", "\u{1f600}\x1b[m", "0123456789abcdefghijklmnopqrstuvwxyz",
}

pub enum Target {
    Strip,
    AutoNever,
}

pub struct Driver {
    pub inner: Rc<RefCell<Inner>>,
    strip: Option<anstream::StripStream<Box<dyn Write>>>,
    auto: Option<anstream::AutoStream<Box<dyn Write>>>,
    pub first: bool,
}

impl Driver {
    pub fn new(script: Vec<Resp>, target: Target, choice: Option<anstream::ColorChoice>) -> Self {
        let inner = Rc::new(RefCell::new(Inner { script: script.into(), ..Default::default() }));
        let b: Box<dyn Write> = Box::new(Scripted(inner.clone()));
        let (strip, auto) = match (target, choice) {
            (_, Some(c)) => (None, Some(anstream::AutoStream::new(b, c))),
            (Target::Strip, None) => (Some(anstream::StripStream::new(b)), None),
            (Target::AutoNever, None) => (None, Some(anstream::AutoStream::never(b))),
        };
        Driver { inner, strip, auto, first: true }
    }
    fn w(&mut self) -> &mut dyn Write {
        if let Some(s) = self.strip.as_mut() {
            s
        } else {
            self.auto.as_mut().unwrap()
        }
    }
    /// one call; returns the event
    pub fn call(&mut self, op: &str, buf: &[u8], frags: &[usize]) -> Value {
        {
            let mut s = self.inner.borrow_mut();
            s.base = buf.as_ptr() as usize;
            s.len = buf.len();
            s.cursor = 0;
            s.log.clear();
        }
        let res = catch_unwind(AssertUnwindSafe(|| -> io::Result<usize> {
            match op {
                "write" => self.w().write(buf),
                "vectored" => {
                    // an empty slice first, then the buffer as up to three contiguous sub-slices
                    let a = frags.first().copied().unwrap_or(buf.len()).min(buf.len());
                    let b = (a + frags.get(1).copied().unwrap_or(buf.len())).min(buf.len());
                    let v = [IoSlice::new(&[]), IoSlice::new(&buf[..a]), IoSlice::new(&buf[a..b]), IoSlice::new(&buf[b..])];
                    self.w().write_vectored(&v)
                }
                "write_fmt_lit" => {
                    let k = LITS.iter().position(|l| l.as_ptr() == buf.as_ptr() && l.len() == buf.len()).expect("literal");
                    write_lit(self.w(), k).map(|_| buf.len())
                }
                "write_all" => self.w().write_all(buf).map(|_| buf.len()),
                "write_fmt" => {
                    let t = std::str::from_utf8(buf).expect("write_fmt needs text");
                    let mut parts: Vec<&str> = Vec::new();
                    let mut pos = 0;
                    for f in frags {
                        let mut e = (pos + f).min(t.len());
                        while !t.is_char_boundary(e) {
                            e += 1;
                        }
                        if e > pos {
                            parts.push(&t[pos..e]);
                            pos = e;
                        }
                    }
                    if pos < t.len() {
                        parts.push(&t[pos..]);
                    }
                    let chars_variant = frags.len() >= 2 && (frags[0] + frags[1]) % 2 == 0 && !t.is_empty();
                    let r = if chars_variant {
                        // first character as a `char` argument (fmt::Write::write_char path), the rest as &str
                        let c0 = t.chars().next().unwrap();
                        write!(self.w(), "{}{}", c0, &t[c0.len_utf8()..])
                    } else {
                    match parts.len() {
                        0 => write!(self.w(), "{}", ""),
                        1 => write!(self.w(), "{}", parts[0]),
                        2 => write!(self.w(), "{}{}", parts[0], parts[1]),
                        3 => write!(self.w(), "{}{}{}", parts[0], parts[1], parts[2]),
                        _ => write!(self.w(), "{}{}{}{}", parts[0], parts[1], parts[2], parts[3..].concat()),
                    }
                    };
                    r.map(|_| buf.len())
                }
                "flush" => self.w().flush().map(|_| 0),
                _ => panic!("op"),
            }
        }));
        let mut s = self.inner.borrow_mut();
        // write_fmt hands over fragment strings (sub-slices of buf here, since parts borrow from buf)
        attribute(buf, &mut s.log, 0);
        let inner: Vec<Value> = s.log.iter().map(|(o, l, t, k)| json!([o, l, t, k])).collect();
        let ret = match res {
            Ok(Ok(n)) => json!(["ok", n]),
            Ok(Err(e)) => json!([kind_of(&e), 0]),
            Err(_) => json!(["panic", 0]),
        };
        let op = if op == "write_fmt_lit" { "write_fmt" } else { op };
        let ev = json!({"op":op,"new":if self.first {1} else {0},"buf":buf,"inner":inner,"ret":ret});
        self.first = false;
        ev
    }
    pub fn into_delivered(self) -> Vec<u8> {
        drop(self.strip);
        drop(self.auto);
        let d = self.inner.borrow().delivered.clone();
        d
    }
}

/// Drive one input through `op` following the standard caller protocol:
/// resubmit the unconsumed tail, retry after Interrupted, stop at any other error.
pub fn run_protocol(input: &[u8], sizes: &[usize], script: Vec<Resp>, op: &str, target: Target, out: &mut Vec<Value>) {
    let mut d = Driver::new(script, target, None);
    let mut pos = 0usize;
    let mut i = 0usize;
    let mut stalls = 0;
    if op == "write_fmt_lit" {
        // a few argument-less formatted writes in sequence through the same stream
        for k in 0..sizes.len().max(2) {
            let idx = (sizes.get(k).copied().unwrap_or(k) + input.len() * 7 + k * 5) % LITS.len();
            let ev = d.call(op, LITS[idx].as_bytes(), &[]);
            let bad = ev["ret"][0] != "ok";
            out.push(ev);
            if bad {
                return;
            }
        }
        return;
    }
    while pos < input.len() {
        let c = if sizes.is_empty() { input.len() - pos } else { sizes[i % sizes.len()].min(input.len() - pos).max(1) };
        i += 1;
        let buf = &input[pos..pos + c];
        if op == "write_fmt" && std::str::from_utf8(buf).is_err() {
            return;
        }
        let ev = d.call(op, buf, &[1 + i % 3, 1 + (i / 3) % 4]);
        let ret = ev["ret"].clone();
        out.push(ev);
        match ret[0].as_str().unwrap() {
            "ok" => {
                let n = ret[1].as_u64().unwrap() as usize;
                if n == 0 {
                    stalls += 1;
                    if stalls > 3 {
                        return;
                    }
                    i -= 1; // resubmit the same tail
                } else {
                    stalls = 0;
                }
                pos += n.min(c);
            }
            "eI" => {
                stalls += 1;
                if stalls > 4 {
                    return;
                }
                i -= 1; // retry the same buffer
            }
            _ => return,
        }
    }
}

/// mechanism B: seeded long grammar inputs x random fault scripts x all four write paths
/// "head ESC[1m <L x> ESC[0m tail\n" for L around 128, 256, 1024, 4096
pub fn threshold_family(deep: bool, osc: bool) -> Vec<Vec<u8>> {
    let mut v = Vec::new();
    let ls: &[usize] = if deep { &[127, 128, 129, 255, 256, 257, 1023, 1024, 1025, 4095, 4096, 4097] } else { &[127, 128, 129, 255, 256, 257, 1023, 1024, 1025] };
    for &l in ls {
        let mut b = b"head \x1b[1m".to_vec();
        b.extend((0..l).map(|i| b'a' + (i % 26) as u8));
        b.extend_from_slice(b"\x1b[0m tail\n");
        v.push(b);
    }
    // many short runs in ONE buffer (16, 17, 33: whatever a call gathers has a capacity), the last one followed by the opening of a
    // sequence that the next call completes
    for runs in [16usize, 17, 33] {
        let mut b = Vec::new();
        for i in 0..runs {
            b.extend_from_slice(format!("run{i:02}\x1b[{}m", i % 8 + 30).as_bytes());
        }
        b.extend_from_slice(b"tail\x1b[3");
        v.push(b);
    }
    if deep || osc {
        // a string sequence whose payload ends right at a typical buffer size, then its terminator and visible text - ONE call
        let ls: &[usize] = if deep { &[4088, 4089, 4090, 4200] } else { &[4100] };
        for &l in ls {
            let mut b = b"\x1b]52;c;".to_vec();
            b.extend((0..l).map(|i| b'A' + (i % 26) as u8));
            b.extend_from_slice(b"\x07shown after\n");
            v.push(b);
        }
    }
    v
}

pub fn record(seed: u64, runs: u64, target: usize, path: &str, max_profile: usize) -> Value {
    use crate::gen::{gen_stream, Flavor};
    let mut w = crate::out_file(path);
    let mut r = crate::rng::Rng::new(seed);
    let (mut events, mut bytes) = (0u64, 0u64);
    for k in 0..runs {
        let mut op = ["write", "write_all", "vectored", "write_fmt", "write", "write_fmt_lit", "write", "vectored"][(k % 8) as usize];
        let flavor = if op == "write_fmt" || r.chance(1, 3) { Flavor::Utf8 } else { Flavor::Full };
        let mut input = gen_stream(&mut r, target, flavor);
        // threshold family (first runs of the shards whose seed is a multiple of 4): a short run, a sequence, then an escape-free
        // run whose length sits on a typical buffer size - in ONE call (pending-buffer and gather optimisations)
        let family = threshold_family(target >= 1000, seed % 8 == 0);
        let fam = seed % 4 == 0 && (k as usize) < family.len();
        if fam {
            input = family[k as usize].clone();
            op = ["write_all", "write_fmt", "write"][(k % 3) as usize];
            if input.starts_with(b"run00") {
                op = "write";
            }
            if input.starts_with(b"\x1b]52") {
                op = "write";      // the entry point that is handed the whole buffer and reports a count
            }
        }
        bytes += input.len() as u64;
        // fault profile: 0 = short writes only, 1 = + Interrupted, 2 = + rare hard errors
        let profile = r.below(3).min(max_profile);
        let mut script = Vec::new();
        for _ in 0..(input.len() / 2 + 4) {
            let x = r.below(100);
            script.push(if x < 62 {
                Resp::All
            } else if x < 90 {
                Resp::Short(*r.pick(&[0usize, 1, 1, 2, 3, 5, 9]))
            } else if x < 97 {
                if profile >= 1 { Resp::ErrI } else { Resp::Short(1) }
            } else if x < 99 {
                if profile >= 2 { Resp::ErrW } else { Resp::All }
            } else if profile >= 2 {
                Resp::ErrO
            } else {
                Resp::All
            });
        }
        let k = *r.pick(&[1usize, 2, 3, 7, 16, 64, 1000]);
        let mut sizes: Vec<usize> = (0..8).map(|_| r.range(1, k)).collect();
        if fam {
            sizes.clear();          // one call for the whole buffer
            script.clear();         // a reliable inner writer
        }
        let target_kind = if r.chance(1, 3) { Target::AutoNever } else { Target::Strip };
        let mut evs = Vec::new();
        run_protocol(&input, &sizes, script, op, target_kind, &mut evs);
        for e in evs {
            writeln!(w, "{e}").unwrap();
            events += 1;
        }
    }
    w.flush().unwrap();
    json!({"summary":{"events":events,"bytes":bytes,"runs":runs}})
}

// ---------------------------------------------------------------------------------------------
// C08: AutoStream
// ---------------------------------------------------------------------------------------------
pub fn choice_of(s: &str) -> anstream::ColorChoice {
    match s {
        "Auto" => anstream::ColorChoice::Auto,
        "AlwaysAnsi" => anstream::ColorChoice::AlwaysAnsi,
        "Always" => anstream::ColorChoice::Always,
        "Never" => anstream::ColorChoice::Never,
        _ => panic!("choice"),
    }
}
pub fn choice_name(c: anstream::ColorChoice) -> &'static str {
    match c {
        anstream::ColorChoice::Auto => "Auto",
        anstream::ColorChoice::AlwaysAnsi => "AlwaysAnsi",
        anstream::ColorChoice::Always => "Always",
        anstream::ColorChoice::Never => "Never",
    }
}

pub fn pin_env() {
    for v in ["NO_COLOR", "CLICOLOR", "CLICOLOR_FORCE", "CI"] {
        std::env::remove_var(v);
    }
    std::env::set_var("TERM", "xterm-256color");
    anstream::ColorChoice::Auto.write_global();
}

/// B: seeded random operation mixes x four choices x fault scripts
pub fn auto_record(seed: u64, runs: u64, target: usize, path: &str) -> Value {
    use crate::gen::{gen_stream, Flavor};
    pin_env();
    let mut w = crate::out_file(path);
    let mut r = crate::rng::Rng::new(seed);
    let (mut events, mut bytes) = (0u64, 0u64);
    for k in 0..runs {
        let mut choice = ["Never", "AlwaysAnsi", "Always", "Auto"][(k % 4) as usize];
        let flavor = if r.chance(1, 2) { Flavor::Utf8 } else { Flavor::Full };
        let mut input = gen_stream(&mut r, target, flavor);
        // special first runs (shards whose seed is a multiple of 4): ONE write_all / write of a buffer that is
        //  0: larger than 64 KiB and not a multiple of it, pass-through mode (size limits applied to the data)
        //  1,2: text whose first visible run also occurs INSIDE the sequence in front of it (a hyperlink labelled with its own
        //       URL, "ESC[31m" + "m...") - offsets must come from positions, not from searching for content
        let special = if seed % 4 == 0 && k < 3 { Some(k) } else { None };
        if let Some(sk) = special {
            match sk {
                0 => {
                    choice = "AlwaysAnsi";
                    input = (0..(65536 + 1 + 700usize)).map(|i| if i % 97 == 0 { b'\n' } else { b'a' + (i % 26) as u8 }).collect();
                }
                1 => {
                    choice = "Never";
                    input = b"\x1b]8;;https://example.com/x\x1b\\https://example.com/x\x1b]8;;\x1b\\ and \x1b[31mmore m\x1b[0m\n".to_vec();
                }
                _ => {
                    choice = "Never";
                    input = b"\x1b[1;31mm1;31m\x1b[0m[0m 31m\n".to_vec();
                }
            }
        }
        if seed % 4 == 0 && (3..8).contains(&k) {
            // ill-formed sequences that LOOK complete (a lead byte followed by the right number of continuation bytes: surrogates,
            // overlong forms, beyond U+10FFFF) behind printable text, under random cuts: whether the bytes arrive in one call or
            // split at / inside the sequence, the same bytes come out
            choice = "Never";
            input = b"dir\\\xed\xa0\x80 x\xe0\x80\x80y\xf0\x80\x80\x80z\xf4\x90\x80\x80w\xed\xbf\xbf!\xe0\x9f\xbf?\xc0\xaf.\n".to_vec();
        }
        bytes += input.len() as u64;
        let profile = r.below(3);
        let mut script = Vec::new();
        for _ in 0..(if special.is_some() { 0 } else { input.len() + 8 }) {
            let x = r.below(100);
            script.push(if x < 70 {
                Resp::All
            } else if x < 92 {
                Resp::Short(*r.pick(&[0usize, 1, 1, 2, 3, 5, 9]))
            } else if x < 98 {
                if profile >= 1 { Resp::ErrI } else { Resp::All }
            } else if profile >= 2 {
                if x == 98 { Resp::ErrW } else { Resp::ErrO }
            } else {
                Resp::All
            });
        }
        let mut d = Driver::new(script, Target::AutoNever, Some(choice_of(choice)));
        let reported = choice_name(d.auto.as_ref().unwrap().current_choice());
        writeln!(w, "{}", json!({"op":"new","choice":choice,"auto":"Never","reported":reported})).unwrap();
        d.first = false;
        events += 1;
        let maxc = if special.is_some() { input.len() } else { *r.pick(&[1usize, 2, 3, 7, 16, 64]) };
        let mut pos = 0;
        let mut stalls = 0;
        let text_ok = std::str::from_utf8(&input).is_ok();
        while pos < input.len() {
            let opk = if special.is_some() { 5 } else { r.below(12) };
            if opk == 0 {
                // flush is forwarded
                let before = d.inner.borrow().flushes;
                let _ = d.call("flush", &[], &[]);
                let after = d.inner.borrow().flushes;
                writeln!(w, "{}", json!({"op":"flush","ret":["ok", after - before]})).unwrap();
                events += 1;
                continue;
            }
            if opk == 1 {
                let idx = r.below(LITS.len());
                let ev = d.call("write_fmt_lit", LITS[idx].as_bytes(), &[]);
                let bad = ev["ret"][0] != "ok";
                writeln!(w, "{ev}").unwrap();
                events += 1;
                if bad {
                    break;
                }
                continue;
            }
            let mut c = if special.is_some() { input.len() - pos } else { r.range(1, maxc).min(input.len() - pos) };
            let mut op = ["write", "write", "write_all", "vectored", "write_fmt"][r.below(5)];
            if let Some(sk) = special {
                op = if sk == 0 { "write_all" } else { "write" };
            }
            if op == "write_fmt" {
                if !text_ok {
                    op = "write_all";
                } else {
                    let t = std::str::from_utf8(&input).unwrap();
                    while !t.is_char_boundary(pos + c) {
                        c += 1;
                    }
                    let _ = t;
                }
            }
            let buf = &input[pos..pos + c];
            if op == "write_fmt" && std::str::from_utf8(buf).is_err() {
                op = "write_all";
            }
            let ev = d.call(op, buf, &[1 + r.below(3), 1 + r.below(4)]);
            let ret = ev["ret"].clone();
            writeln!(w, "{ev}").unwrap();
            events += 1;
            match ret[0].as_str().unwrap() {
                "ok" => {
                    let n = ret[1].as_u64().unwrap() as usize;
                    if n == 0 {
                        stalls += 1;
                        if stalls > 4 {
                            break;
                        }
                    } else {
                        stalls = 0;
                    }
                    pos += n.min(c);
                }
                "eI" => {
                    stalls += 1;
                    if stalls > 5 {
                        break;
                    }
                }
                _ => break,
            }
        }
        let delivered = d.into_delivered();
        writeln!(w, "{}", json!({"op":"into_inner","buf":delivered})).unwrap();
        events += 1;
    }
    w.flush().unwrap();
    json!({"summary":{"events":events,"bytes":bytes,"runs":runs}})
}

/// A: TLC-generated operation sequences with the expected content of the inner writer for both modes,
/// replayed for the four choices over Vec<u8>, Box<dyn Write> and File
pub fn auto_replay(path: &str) -> Value {
    pin_env();
    let (mut cases, mut runs, mut bad) = (0u64, 0u64, 0u64);
    let tmp = std::env::temp_dir().join(format!("vh-auto-{}", std::process::id()));
    for c in crate::read_lines(path) {
        cases += 1;
        let ops: Vec<(String, Vec<u8>)> = c["ops"].as_array().unwrap().iter().map(|o| (o[0].as_str().unwrap().to_string(), crate::bytes_of(&o[1]))).collect();
        let strip = crate::bytes_of(&c["strip"]);
        let pass = crate::bytes_of(&c["pass"]);
        for choice in ["Never", "AlwaysAnsi", "Always", "Auto"] {
            let expect = if choice == "Never" || choice == "Auto" { &strip } else { &pass };
            let expect_rep = if choice == "Never" || choice == "Auto" { "Never" } else { "AlwaysAnsi" };
            for kind in 0..4 {
                if kind == 2 && cases % 40 != 0 {
                    continue;
                }
                runs += 1;
                let res = catch_unwind(AssertUnwindSafe(|| -> (Vec<u8>, &'static str) {
                    fn drive(w: &mut dyn Write, ops: &[(String, Vec<u8>)]) {
                        for (op, b) in ops {
                            match op.as_str() {
                                "write" => {
                                    let mut p = 0;
                                    while p < b.len() {
                                        let n = w.write(&b[p..]).unwrap();
                                        assert!(n > 0, "stall: write returned Ok(0) for a non-empty buffer");
                                        p += n;
                                    }
                                }
                                "write_all" => w.write_all(b).unwrap(),
                                "vectored" => {
                                    let mut p = 0;
                                    while p < b.len() {
                                        let m = (p + 1).min(b.len());
                                        let n = w.write_vectored(&[IoSlice::new(&[]), IoSlice::new(&b[p..m]), IoSlice::new(&b[m..])]).unwrap();
                                        assert!(n > 0, "stall: write_vectored returned Ok(0) although a later slice has data");
                                        p += n;
                                    }
                                }
                                "write_fmt" => {
                                    let t = std::str::from_utf8(b).unwrap();
                                    let mut it = t.chars();
                                    match it.next() {
                                        // char argument first: the adapter's write_char path
                                        Some(c0) if t.len() % 2 == 0 => write!(w, "{}{}", c0, it.as_str()).unwrap(),
                                        _ => write!(w, "{}", t).unwrap(),
                                    }
                                }
                                "flush" => w.flush().unwrap(),
                                "lock" => {}
                                _ => panic!("op"),
                            }
                        }
                    }
                    match kind {
                        0 => {
                            let mut s = anstream::AutoStream::new(Vec::new(), choice_of(choice));
                            let rep = choice_name(s.current_choice());
                            drive(&mut s, &ops);
                            (s.into_inner(), rep)
                        }
                        1 => {
                            let inner = Rc::new(RefCell::new(Inner::default()));
                            let b: Box<dyn Write> = Box::new(Scripted(inner.clone()));
                            let mut s = anstream::AutoStream::new(b, choice_of(choice));
                            let rep = choice_name(s.current_choice());
                            drive(&mut s, &ops);
                            drop(s.into_inner());
                            let d = inner.borrow().delivered.clone();
                            (d, rep)
                        }
                        3 => {
                            #[allow(deprecated)]
                            let mut s = anstream::AutoStream::new(anstream::Buffer::new(), choice_of(choice));
                            let rep = choice_name(s.current_choice());
                            drive(&mut s, &ops);
                            #[allow(deprecated)]
                            let b = s.into_inner();
                            (b.as_bytes().to_vec(), rep)
                        }
                        _ => {
                            let f = std::fs::File::create(&tmp).unwrap();
                            let mut s = anstream::AutoStream::new(f, choice_of(choice));
                            let rep = choice_name(s.current_choice());
                            drive(&mut s, &ops);
                            drop(s.into_inner());
                            (std::fs::read(&tmp).unwrap(), rep)
                        }
                    }
                }));
                let (ok, got) = match &res {
                    Ok((d, rep)) => (d == expect && *rep == expect_rep, json!({"delivered":d,"reported":rep})),
                    Err(_) => (false, json!("panic")),
                };
                if !ok {
                    bad += 1;
                    if bad <= 30 {
                        println!("{}", json!({"mismatch":{"ops":c["ops"],"choice":choice,"inner_kind":(["Vec","BoxDyn","File","Buffer"][kind]),"expected":{"delivered":expect,"reported":expect_rep},"observed":got}}));
                    }
                }
            }
        }
        // to_adapted_string: Display through the same machinery, for a non-terminal
        if ops.iter().all(|(_, b)| std::str::from_utf8(b).is_ok()) {
            let all: Vec<u8> = ops.iter().flat_map(|(_, b)| b.clone()).collect();
            let text = String::from_utf8(all).unwrap();
            runs += 1;
            let got = anstream::_macros::to_adapted_string(&text, &Vec::new());
            if got.as_bytes() != &strip[..] {
                bad += 1;
                println!("{}", json!({"mismatch":{"ops":c["ops"],"choice":"to_adapted_string","expected":{"delivered":strip},"observed":{"delivered":got.as_bytes()}}}));
            }
        }
    }
    let _ = std::fs::remove_file(&tmp);
    json!({"summary":{"cases":cases,"runs":runs,"mismatches":bad}})
}

/// C08 (macros): anstream::panic! payload and anstream::print!/eprint! output for TLC-generated texts.
/// Prints one JSON line per case for panic payloads; the printed texts go to the real stdout/stderr, separated by a
/// marker written through std directly, and are compared by the driver.
pub fn macro_replay(path: &str, what: &str) -> Value {
    let mut cases = 0u64;
    let mut results = Vec::new();
    for c in crate::read_lines(path) {
        let ops: Vec<Vec<u8>> = c["ops"].as_array().unwrap().iter().map(|o| crate::bytes_of(&o[1])).collect();
        let all: Vec<u8> = ops.concat();
        let text = match String::from_utf8(all) {
            Ok(t) => t,
            Err(_) => continue,
        };
        cases += 1;
        match what {
            "panic" => {
                let r = catch_unwind(AssertUnwindSafe(|| {
                    anstream::panic!("{}", text);
                }));
                let payload = match r {
                    Err(p) => p.downcast_ref::<String>().cloned().unwrap_or_default(),
                    Ok(()) => "<no panic>".to_string(),
                };
                results.push(json!({"strip":c["strip"],"pass":c["pass"],"payload":payload.as_bytes()}));
            }
            "print" => {
                anstream::print!("{}", text);
                print!("\n@@SEP@@\n");
            }
            "eprint" => {
                anstream::eprint!("{}", text);
                eprint!("\n@@SEP@@\n");
            }
            _ => panic!("what"),
        }
    }
    let _ = std::io::stdout().flush();
    json!({"summary":{"cases":cases},"results":results})
}

/// C08 / C03 on the REAL standard streams: TLC-generated operation sequences including `lock` (AutoStream::lock hands the
/// carried stripper state to the locked stream) replayed on AutoStream<Stdout|Stderr>; the output goes to the real stream
/// (a pipe read by the driver), cases separated by a marker written through std directly.
pub fn std_replay(path: &str, stream: &str, choice: &str) -> Value {
    enum S {
        O(anstream::AutoStream<std::io::Stdout>),
        OL(anstream::AutoStream<std::io::StdoutLock<'static>>),
        E(anstream::AutoStream<std::io::Stderr>),
        EL(anstream::AutoStream<std::io::StderrLock<'static>>),
    }
    impl S {
        fn w(&mut self) -> &mut dyn Write {
            match self {
                S::O(s) => s,
                S::OL(s) => s,
                S::E(s) => s,
                S::EL(s) => s,
            }
        }
        fn lock(self) -> S {
            match self {
                S::O(s) => S::OL(s.lock()),
                S::E(s) => S::EL(s.lock()),
                other => other,
            }
        }
    }
    const SEP: &[u8] = b"\n@@SEP@@\n";
    let mut cases = 0u64;
    for c in crate::read_lines(path) {
        let ops: Vec<(String, Vec<u8>)> = c["ops"].as_array().unwrap().iter().map(|o| (o[0].as_str().unwrap().to_string(), crate::bytes_of(&o[1]))).collect();
        cases += 1;
        let res = catch_unwind(AssertUnwindSafe(|| {
            let mut s = if stream == "stdout" {
                S::O(anstream::AutoStream::new(std::io::stdout(), choice_of(choice)))
            } else {
                S::E(anstream::AutoStream::new(std::io::stderr(), choice_of(choice)))
            };
            for (op, b) in &ops {
                match op.as_str() {
                    "lock" => s = s.lock(),
                    "write" => {
                        let mut p = 0;
                        while p < b.len() {
                            let n = s.w().write(&b[p..]).unwrap();
                            assert!(n > 0, "stall");
                            p += n;
                        }
                    }
                    "write_all" => s.w().write_all(b).unwrap(),
                    "vectored" => {
                        let mut p = 0;
                        while p < b.len() {
                            let m = (p + 1).min(b.len());
                            let n = s.w().write_vectored(&[IoSlice::new(&[]), IoSlice::new(&b[p..m]), IoSlice::new(&b[m..])]).unwrap();
                            assert!(n > 0, "stall");
                            p += n;
                        }
                    }
                    "write_fmt" => write!(s.w(), "{}", std::str::from_utf8(b).unwrap()).unwrap(),
                    "flush" => s.w().flush().unwrap(),
                    _ => panic!("op"),
                }
            }
            let _ = s.w().flush();
        }));
        let tail: &[u8] = if res.is_err() { b"<panic>" } else { b"" };
        if stream == "stdout" {
            let mut o = std::io::stdout();
            let _ = o.write_all(tail).and_then(|_| o.write_all(SEP)).and_then(|_| o.flush());
        } else {
            let mut o = std::io::stderr();
            let _ = o.write_all(tail).and_then(|_| o.write_all(SEP)).and_then(|_| o.flush());
        }
    }
    json!({"summary":{"cases":cases}})
}
