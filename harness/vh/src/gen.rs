//! Grammar-based generators of terminal byte streams. Generators only choose inputs; every
//! expectation comes from the TLA+ specification.
use crate::rng::Rng;

#[derive(Clone, Copy, PartialEq, Eq)]
pub enum Flavor {
    /// everything: 8-bit bytes, malformed UTF-8, C1
    Full,
    /// only bytes < 0x80 (C20)
    SevenBit,
    /// valid UTF-8 only (text APIs)
    Utf8,
}

pub fn push_char(out: &mut Vec<u8>, c: char) {
    let mut b = [0u8; 4];
    out.extend_from_slice(c.encode_utf8(&mut b).as_bytes());
}

const NICE_CHARS: &[u32] = &[
    0xe9, 0x20ac, 0x1f600, 0xfffd, 0x4e2d, 0x301, 0x200d, 0x80, 0x85, 0x9b, 0x9c, 0xa0, 0x7ff, 0x800, 0xffff,
    0x10000, 0x10ffff, 0xd7ff, 0xe000, 0x212a, 0xff, 0x100, 0x2705, 0x271c, 0x2585,
];

pub fn gen_char(r: &mut Rng) -> char {
    if r.chance(3, 4) {
        char::from_u32(*r.pick(NICE_CHARS)).unwrap()
    } else {
        loop {
            let c = match r.below(4) {
                0 => r.range(0x80, 0x7ff),
                1 => r.range(0x800, 0xffff),
                2 => r.range(0x10000, 0x10ffff),
                _ => r.range(0xa0, 0x24f),
            } as u32;
            if let Some(c) = char::from_u32(c) {
                return c;
            }
        }
    }
}

fn gen_text(r: &mut Rng, out: &mut Vec<u8>) {
    for _ in 0..r.range(1, 10) {
        out.push(r.range(0x20, 0x7e) as u8);
    }
}

/// parameter string of a CSI/DCS: boundary-biased counts, long digit strings, ';' ':' mixes
pub fn gen_params(r: &mut Rng, out: &mut Vec<u8>) {
    let count = *r.pick(&[0usize, 0, 1, 1, 1, 2, 2, 3, 4, 5, 8, 15, 16, 17, 30, 31, 32, 33, 34, 40]);
    let colon_bias = *r.pick(&[0usize, 0, 1, 5, 9, 10]);
    for i in 0..count {
        if i > 0 {
            out.push(if r.below(10) < colon_bias { b':' } else { b';' });
        }
        let digits = *r.pick(&[0usize, 1, 1, 1, 2, 2, 3, 3, 4, 5, 6, 10, 25]);
        if digits >= 5 && r.chance(1, 2) {
            // around the saturation value
            let v = *r.pick(&[65534u64, 65535, 65536, 65537, 99999, 655350, 6553, 65530]);
            out.extend_from_slice(v.to_string().as_bytes());
        } else {
            for _ in 0..digits {
                out.push(b'0' + r.below(10) as u8);
            }
        }
    }
    if count > 0 && r.chance(1, 6) {
        out.push(if r.chance(1, 2) { b';' } else { b':' });
    }
}

fn gen_inter(r: &mut Rng, out: &mut Vec<u8>) {
    let n = *r.pick(&[0usize, 0, 0, 0, 1, 1, 2, 2, 3, 4]);
    for _ in 0..n {
        out.push(r.range(0x20, 0x2f) as u8);
    }
}

/// deterministic boundary family: CSI and DCS with 30..34 separators (the 32-parameter limit), ';' or ':', the last
/// parameter empty or not, directly followed by the final byte or by an intermediate; OSC with 14..17 separators; 1..4
/// intermediates.  `seed` only picks which half is emitted so that several shards cover the family between them.
pub fn limit_family(seed: u64) -> Vec<u8> {
    let mut out = Vec::new();
    let mut k = 0u64;
    for intro in [&b"\x1b["[..], &b"\x1bP"[..]] {
        for n in 30..=34usize {
            for sep in [b';', b':'] {
                for last in [&b""[..], &b"7"[..]] {
                    for inter in [&b""[..], &b" "[..]] {
                        k += 1;
                        if k % 2 != seed % 2 {
                            continue;
                        }
                        out.extend_from_slice(intro);
                        for i in 0..n {
                            out.push(b'1' + (i % 9) as u8);
                            out.push(sep);
                        }
                        out.extend_from_slice(last);
                        out.extend_from_slice(inter);
                        out.push(b'q');
                        if intro[1] == b'P' {
                            out.extend_from_slice(b"data\x1b\\");
                        }
                        out.push(b'.');
                    }
                }
            }
        }
    }
    for n in 14..=17usize {
        for end in [&b"\x07"[..], &b"\x1b\\"[..], &b"\x18"[..]] {
            out.extend_from_slice(b"\x1b]");
            for i in 0..n {
                out.push(b'a' + (i % 26) as u8);
                out.push(b';');
            }
            if n % 2 == 0 {
                out.push(b'z');
            }
            out.extend_from_slice(end);
            out.push(b'.');
        }
    }
    for n in [1usize, 2, 3, 4, 255, 256, 257, 300] {
        if n > 4 && seed % 4 != 0 {
            continue;       // counters of a byte's width: one shard in four
        }
        for intro in [&b"\x1b"[..], &b"\x1b["[..], &b"\x1bP"[..]] {
            out.extend_from_slice(intro);
            for i in 0..n {
                out.push(b' ' + (i % 16) as u8);
            }
            out.push(b'q');
            if intro.len() == 2 && intro[1] == b'P' {
                out.extend_from_slice(b"\x1b\\");
            }
            out.push(b'.');
        }
    }
    out
}

pub fn gen_csi(r: &mut Rng, out: &mut Vec<u8>) {
    out.extend_from_slice(b"\x1b[");
    if r.chance(1, 6) {
        out.push(r.range(0x3c, 0x3f) as u8);
    }
    gen_params(r, out);
    if r.chance(1, 12) {
        // private marker in the middle -> CsiIgnore
        out.push(r.range(0x3c, 0x3f) as u8);
        gen_params(r, out);
    }
    gen_inter(r, out);
    if r.chance(1, 10) {
        // parameter byte after an intermediate -> CsiIgnore
        out.push(r.range(0x30, 0x3f) as u8);
    }
    let fin = if r.chance(1, 2) { b'm' } else { r.range(0x40, 0x7e) as u8 };
    out.push(fin);
}

fn gen_string_end(r: &mut Rng, out: &mut Vec<u8>, flavor: Flavor, osc: bool) {
    match r.below(8) {
        0 | 1 => {
            if osc {
                out.push(7)
            } else if flavor == Flavor::Full {
                out.push(0x9c)
            } else {
                out.extend_from_slice(b"\x1b\\")
            }
        }
        2 | 3 => out.extend_from_slice(b"\x1b\\"),
        4 => out.push(0x18),
        5 => out.push(0x1a),
        6 => {
            if flavor == Flavor::Full {
                out.push(0x9c)
            } else {
                out.push(7)
            }
        }
        _ => {} // unterminated: whatever follows continues the string
    }
}

pub fn gen_osc(r: &mut Rng, out: &mut Vec<u8>, flavor: Flavor) {
    out.extend_from_slice(b"\x1b]");
    let fields = *r.pick(&[0usize, 1, 1, 2, 2, 3, 5, 15, 16, 17, 18, 20]);
    for i in 0..fields {
        if i > 0 {
            out.push(b';');
        }
        let n = *r.pick(&[0usize, 0, 1, 2, 3, 8]);
        for _ in 0..n {
            match r.below(12) {
                0 if flavor != Flavor::SevenBit => push_char(out, gen_char(r)),
                1 if flavor == Flavor::Full => out.push(r.range(0x80, 0xff) as u8),
                2 => out.push(*r.pick(&[0u8, 1, 8, 9, 10, 13, 0x1f, 0x7f])),
                _ => out.push(r.range(0x20, 0x7e) as u8),
            }
        }
    }
    gen_string_end(r, out, flavor, true);
}

pub fn gen_dcs(r: &mut Rng, out: &mut Vec<u8>, flavor: Flavor) {
    out.extend_from_slice(b"\x1bP");
    if r.chance(1, 6) {
        out.push(r.range(0x3c, 0x3f) as u8);
    }
    gen_params(r, out);
    gen_inter(r, out);
    if r.chance(1, 10) {
        out.push(r.range(0x30, 0x3f) as u8); // -> DcsIgnore
    }
    out.push(r.range(0x40, 0x7e) as u8);
    for _ in 0..r.below(8) {
        match r.below(10) {
            0 => out.push(*r.pick(&[0u8, 9, 10, 13, 0x1f, 0x7f, 7])),
            1 if flavor == Flavor::Full => out.push(r.range(0x80, 0xff) as u8),
            2 if flavor != Flavor::SevenBit => push_char(out, gen_char(r)),
            _ => out.push(r.range(0x20, 0x7e) as u8),
        }
    }
    gen_string_end(r, out, flavor, false);
}

pub fn gen_sos(r: &mut Rng, out: &mut Vec<u8>, flavor: Flavor) {
    out.push(0x1b);
    out.push(*r.pick(b"X^_"));
    for _ in 0..r.below(8) {
        match r.below(10) {
            0 => out.push(*r.pick(&[0u8, 9, 10, 13, 0x1f, 0x7f, 7])),
            1 if flavor == Flavor::Full => out.push(r.range(0x80, 0xff) as u8),
            2 if flavor != Flavor::SevenBit => push_char(out, gen_char(r)),
            _ => out.push(r.range(0x20, 0x7e) as u8),
        }
    }
    gen_string_end(r, out, flavor, false);
}

pub fn gen_esc(r: &mut Rng, out: &mut Vec<u8>) {
    out.push(0x1b);
    gen_inter(r, out);
    out.push(r.range(0x30, 0x7e) as u8);
}

pub fn gen_malformed_utf8(r: &mut Rng, out: &mut Vec<u8>) {
    match r.below(12) {
        0 => out.push(r.range(0x80, 0xbf) as u8), // lone continuation
        1 => {
            out.push(r.range(0xc2, 0xf4) as u8);
            out.push(*r.pick(&[0x41u8, 0x20, 0x0a, 0x1b, 0x00, 0x7f, 0x18, 0x07, 0x5b, 0xc3, 0xff]));
        }
        2 => {
            out.push(r.range(0xe0, 0xef) as u8);
            out.push(r.range(0xa0, 0xbf) as u8);
            out.push(*r.pick(&[0x41u8, 0x1b, 0x0a, 0x7f, 0x01, 0xe2]));
        }
        3 => {
            out.push(r.range(0xf0, 0xf4) as u8);
            out.push(r.range(0x90, 0xbf) as u8);
            if r.chance(1, 2) {
                out.push(r.range(0x80, 0xbf) as u8);
            }
            out.push(*r.pick(&[0x41u8, 0x1b, 0x0d, 0x7f, 0x02, 0xf0]));
        }
        4 => out.extend_from_slice(&[0xc0, 0x80]),
        5 => out.extend_from_slice(&[0xc1, 0xbf]),
        6 => out.extend_from_slice(&[0xe0, 0x80, 0x80]),
        7 => out.extend_from_slice(&[0xed, 0xa0, 0x80]),
        8 => out.extend_from_slice(&[0xf4, 0x90, 0x80, 0x80]),
        9 => out.push(r.range(0xf5, 0xff) as u8),
        10 => out.extend_from_slice(&[0xf0, 0x80, 0x80, 0x80]),
        _ => {
            out.push(r.range(0xc2, 0xdf) as u8);
        }
    }
}

fn gen_sequence(r: &mut Rng, out: &mut Vec<u8>, flavor: Flavor) {
    match r.below(10) {
        0..=3 => gen_csi(r, out),
        4 | 5 => gen_osc(r, out, flavor),
        6 => gen_dcs(r, out, flavor),
        7 => gen_sos(r, out, flavor),
        _ => gen_esc(r, out),
    }
}

/// one element of the stream grammar
pub fn gen_element(r: &mut Rng, out: &mut Vec<u8>, flavor: Flavor) {
    match r.below(24) {
        0..=4 => gen_text(r, out),
        5 | 6 => {
            if flavor == Flavor::SevenBit {
                gen_text(r, out)
            } else {
                for _ in 0..r.range(1, 3) {
                    push_char(out, gen_char(r));
                }
            }
        }
        7 | 8 => out.push(*r.pick(&[9u8, 10, 12, 13, 10])),
        9 => out.push(if r.chance(1, 3) { 127 } else { *r.pick(&[0u8, 1, 7, 8, 11, 14, 15, 0x17, 0x19, 0x1c, 0x1f]) }),
        10..=15 => gen_sequence(r, out, flavor),
        16 | 17 => {
            // truncated sequence
            let mut s = Vec::new();
            gen_sequence(r, &mut s, flavor);
            let cut = r.range(1, s.len());
            out.extend_from_slice(&s[..cut]);
        }
        18 | 19 => {
            // control / other byte embedded inside a sequence
            let mut s = Vec::new();
            gen_sequence(r, &mut s, flavor);
            let at = r.range(1, s.len());
            let ins = match r.below(8) {
                0 => *r.pick(&[9u8, 10, 12, 13]),
                1 => 0x18,
                2 => 0x1a,
                3 => 0x1b,
                4 => 0x7f,
                5 => *r.pick(&[0u8, 7, 8, 11, 0x1f]),
                6 if flavor == Flavor::Full => r.range(0x80, 0xff) as u8,
                _ => r.range(0x20, 0x7e) as u8,
            };
            out.extend_from_slice(&s[..at]);
            out.push(ins);
            if r.chance(1, 3) {
                // a RUN of executed whitespace inside the sequence (CR LF, TAB TAB LF): it is a printable run of its own that
                // starts and ends with the parser inside the sequence
                for _ in 0..r.range(1, 3) {
                    out.push(*r.pick(&[9u8, 10, 13, 10, 12]));
                }
            }
            out.extend_from_slice(&s[at..]);
        }
        20 => {
            if flavor == Flavor::Full {
                out.push(r.range(0x80, 0x9f) as u8)
            } else if flavor == Flavor::Utf8 {
                push_char(out, char::from_u32(r.range(0x80, 0x9f) as u32).unwrap())
            } else {
                out.push(0x18)
            }
        }
        21 | 22 => {
            if flavor == Flavor::Full {
                gen_malformed_utf8(r, out)
            } else {
                gen_text(r, out)
            }
        }
        _ => {
            for _ in 0..r.range(1, 4) {
                let b = r.byte();
                match flavor {
                    Flavor::Full => out.push(b),
                    Flavor::SevenBit => out.push(b & 0x7f),
                    Flavor::Utf8 => out.push(b & 0x7f),
                }
            }
        }
    }
}

pub fn gen_stream(r: &mut Rng, target: usize, flavor: Flavor) -> Vec<u8> {
    let mut out = Vec::with_capacity(target + 64);
    while out.len() < target {
        gen_element(r, &mut out, flavor);
    }
    if flavor == Flavor::Utf8 && std::str::from_utf8(&out).is_err() {
        // truncation/insertion may have cut a character: repair, keeping the stream valid UTF-8
        out = String::from_utf8_lossy(&out).into_owned().into_bytes();
    }
    out
}

/// seeded partition of n into chunk sizes; style 0 = one chunk, 1 = all single bytes, else 1..=k
pub fn gen_partition(r: &mut Rng, n: usize, style: usize) -> Vec<usize> {
    let mut cuts = Vec::new();
    let mut left = n;
    let k = match style {
        0 => n.max(1),
        1 => 1,
        s => s,
    };
    while left > 0 {
        let c = if style <= 1 { k.min(left) } else { r.range(1, k).min(left) };
        cuts.push(c);
        left -= c;
    }
    cuts
}

// ---------------------------------------------------------------------------------------------
// SGR-rich texts (C07, C14, C18)
// ---------------------------------------------------------------------------------------------
const SINGLES: &[&str] = &[
    "0", "1", "2", "3", "4", "7", "8", "9", "21", "30", "31", "34", "37", "39", "40", "41", "47", "49", "90", "91", "97", "100", "104", "107",
    "", "00", "01", "004", "031", "5", "6", "22", "23", "24", "25", "27", "28", "29", "59", "10", "11", "26", "50", "51", "60", "73", "99", "108", "255",
    // values whose LOW BYTE is an assigned code (256 + 0/1/7/31/38/100, 512 + 4): a code is a number, not a byte
    "256", "257", "263", "287", "294", "356", "516", "65535", "1000",
    // beyond the parser's saturation value (every one of these IS 65535, an unassigned code): 65536 + 0/1/3/31
    "65536", "65537", "65539", "65567", "99999999",
    // heavy zero padding: the value is what counts, not the number of digits
    "000001", "0000031", "00000000004", "0000000000000000000000107",
];

/// one well-formed attribute group; returns (text, number of parameters)
pub fn gen_group(r: &mut Rng) -> (String, usize) {
    match r.below(12) {
        0 | 1 => {
            let t = *r.pick(&["38", "48", "58"]);
            let n = *r.pick(&[0usize, 1, 7, 8, 15, 16, 100, 200, 231, 232, 255]);
            let n = if r.chance(1, 3) { r.below(256) } else if r.chance(1, 3) { r.below(16) } else { n };
            if r.chance(1, 2) { (format!("{t};5;{n}"), 3) } else { (format!("{t}:5:{n}"), 1) }
        }
        2 | 3 => {
            let t = *r.pick(&["38", "48", "58"]);
            // channels biased to the values that also mean something as codes (0 = reset, 1 = bold, 5, 2) and to an empty field
            let ch = |r: &mut Rng| -> String {
                match r.below(8) {
                    0 => "0".to_string(),
                    1 => (*r.pick(&["", "1", "2", "5", "00", "255"])).to_string(),
                    // ... and to values that ARE colour / effect codes when read on their own
                    2 => (*r.pick(&["31", "42", "91", "104", "7", "4", "9", "39", "49", "30", "47", "97", "100"])).to_string(),
                    _ => r.below(256).to_string(),
                }
            };
            let (a, b, c) = (ch(r), ch(r), ch(r));
            if r.chance(1, 2) { (format!("{t};2;{a};{b};{c}"), 5) } else { (format!("{t}:2:{a}:{b}:{c}"), 1) }
        }
        4 => (format!("4:{}", r.below(6)), 1),
        5 => {
            // leading zeros inside an extended colour
            let t = *r.pick(&["38", "48", "58"]);
            (format!("{t};05;0{}", r.below(100)), 3)
        }
        6 if r.chance(1, 2) => {
            // an extended-colour selector that is cut short (by the next group or by the final byte): what it leaves behind is
            // not prescribed - but it ends with its sequence, the next sequence is read on its own
            let t = *r.pick(&["38", "48", "58"]);
            let g = match r.below(10) {
                0 => format!("{t}"),
                1 => format!("{t};5"),
                2 => format!("{t};2"),
                3 => format!("{t};2;{}", r.below(256)),
                4 => format!("{t};2;{};{}", r.below(256), r.below(256)),
                5 => format!("{t}:5"),
                // colon forms with too few sub-parameters (counts are not to be subtracted from blindly)
                6 => format!("{t}:2"),
                7 => format!("{t}:2:{}", r.below(256)),
                8 => format!("{t};2:{}", r.below(256)),
                _ => format!("{t}:2:{}:{}", r.below(256), r.below(256)),
            };
            let n = g.split(';').count();
            (g, n)
        }
        _ => ((*r.pick(SINGLES)).to_string(), 1),
    }
}

pub fn gen_sgr(r: &mut Rng, out: &mut Vec<u8>) {
    let want = *r.pick(&[1usize, 1, 1, 2, 2, 3, 4, 6, 12, 30]);
    let mut params = 0;
    let mut groups: Vec<String> = Vec::new();
    for _ in 0..want {
        let (g, n) = gen_group(r);
        if params + n > 32 {
            break;
        }
        params += n;
        groups.push(g);
    }
    if groups.len() == 1 && groups[0].is_empty() && r.chance(1, 2) {
        groups.clear();
    }
    out.extend_from_slice(b"\x1b[");
    out.extend_from_slice(groups.join(";").as_bytes());
    out.push(b'm');
}

/// a CSI that is NOT an SGR: other final byte, or final 'm' with a private marker / intermediate
fn gen_other_csi(r: &mut Rng, out: &mut Vec<u8>) {
    out.extend_from_slice(b"\x1b[");
    let marked = r.chance(1, 3);
    if marked && r.chance(1, 2) {
        out.push(*r.pick(b"<=>?"));
    }
    for i in 0..r.below(4) {
        if i > 0 {
            out.push(b';');
        }
        out.extend_from_slice(r.below(120).to_string().as_bytes());
    }
    let inter = marked && (out.len() == 2 || r.chance(1, 2));
    if inter || (marked && !out[2..].iter().any(|b| b"<=>?".contains(b))) {
        out.push(*r.pick(b" !\"$"));
    }
    if marked {
        out.push(b'm');
    } else {
        // every final byte class: letters, '@', '`', and the edges of the range ('~' ends function-key reports CSI 15 ~)
        out.push(*r.pick(b"ABCDHJKSTfhlnrsu@`{|}~~~[]^_"));
    }
}

pub fn gen_styled_text(r: &mut Rng, target: usize, xmlish: bool) -> Vec<u8> {
    let mut out = Vec::new();
    while out.len() < target {
        match r.below(20) {
            0..=6 => {
                for _ in 0..r.range(1, 8) {
                    out.push(r.range(0x20, 0x7e) as u8);
                }
            }
            7 | 8 => {
                for _ in 0..r.range(1, 3) {
                    push_char(&mut out, gen_char(r));
                }
            }
            9 => {
                // whitespace-only text (a run consisting of blanks must keep its own style)
                for _ in 0..r.range(1, 3) {
                    out.push(*r.pick(&[b'\n', b'\t', b'\r', b' ', b' ']));
                }
            }
            10..=14 => gen_sgr(r, &mut out),
            15 if r.chance(1, 3) => {
                // a whitespace control INSIDE a sequence is executed (it is text) and the sequence goes on
                let mut sq = Vec::new();
                gen_sgr(r, &mut sq);
                let at = r.range(2, sq.len() - 1);
                out.extend_from_slice(&sq[..at]);
                out.push(*r.pick(&[b'\n', b'\t', b'\r']));
                out.extend_from_slice(&sq[at..]);
                out.push(r.range(0x41, 0x5a) as u8);
            }
            15 => gen_sgr(r, &mut out),
            16 => gen_other_csi(r, &mut out),
            17 => gen_osc(r, &mut out, Flavor::Utf8),
            18 if r.chance(1, 3) => {
                // a sequence that overflows the parser's limits (> 32 parameters or > 2 intermediates) and is then ABANDONED by
                // CAN / SUB / a new ESC: nothing of it may influence the SGR that follows
                out.extend_from_slice(b"\x1b[");
                if r.chance(1, 2) {
                    for _ in 0..r.range(33, 40) {
                        out.extend_from_slice(r.below(50).to_string().as_bytes());
                        out.push(b';');
                    }
                } else {
                    out.extend_from_slice(b"1 !\"$");
                }
                out.push(*r.pick(&[0x18u8, 0x1a, 0x1b]));
                if *out.last().unwrap() == 0x1b {
                    out.extend_from_slice(b"[");
                    out.extend_from_slice(gen_group(r).0.as_bytes());
                    out.push(b'm');
                } else {
                    gen_sgr(r, &mut out);
                }
                out.push(r.range(0x41, 0x5a) as u8);
            }
            18 => gen_esc(r, &mut out),
            _ => {
                if xmlish && r.chance(1, 4) {
                    // controls that are executed, not shown (VT is not one of the whitespace controls TAB LF FF CR)
                    out.push(*r.pick(&[0x0bu8, 0x0b, 0x01, 0x0e, 0x1f, 0x7f, 0x08]));
                } else if xmlish {
                    out.extend_from_slice(*r.pick(&[&b"<a&b>"[..], b"\"q\"", b"'", b"&amp;", b"]]>", b"\r\n", b"<!--"]));
                } else {
                    out.push(*r.pick(&[0u8, 7, 8, 0x7f, 0x18, 0x0b, 0x0e, 0x1c, 0x1f, 0x01]));
                }
            }
        }
    }
    if std::str::from_utf8(&out).is_err() {
        out = String::from_utf8_lossy(&out).into_owned().into_bytes();
    }
    out
}

