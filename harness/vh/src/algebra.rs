//! C13: batched observations of the Effects / Style / colour algebra for Trace_StyleAlgebra.
use crate::rng::Rng;
use crate::style::{ansi_index, col_json, effects_from_bits, gen_color, gen_style, style_json, ANSI, EFFECTS};
use anstyle::{Ansi256Color, Effects, Style};
use serde_json::{json, Value};
use std::io::Write;

/// bits as observed through `contains` of each single effect
fn bits_of(e: Effects) -> u32 {
    let mut n = 0;
    for (k, (_, f)) in EFFECTS.iter().enumerate() {
        if e.contains(*f) {
            n |= 1 << k;
        }
    }
    n
}

fn name_of(e: Effects) -> String {
    EFFECTS.iter().find(|(_, f)| *f == e).map(|(n, _)| n.to_string()).unwrap_or_else(|| format!("?{:?}", e))
}

fn debug_names(e: Effects) -> Vec<String> {
    let s = format!("{:?}", e);
    let inner = s.strip_prefix("Effects(").and_then(|x| x.strip_suffix(')')).unwrap_or("?");
    if inner.is_empty() { vec![] } else { inner.split(" | ").map(|x| x.to_string()).collect() }
}

fn eff_event(a: u32, bs: &[u32]) -> Value {
    let ea = effects_from_bits(a as u16);
    let mut res = serde_json::Map::new();
    let ops: [(&str, Box<dyn Fn(Effects, Effects) -> u32>); 9] = [
        ("insert", Box::new(|x, y| bits_of(x.insert(y)))),
        ("or", Box::new(|x, y| bits_of(x | y))),
        ("or_assign", Box::new(|x, y| {
            let mut z = x;
            z |= y;
            bits_of(z)
        })),
        ("remove", Box::new(|x, y| bits_of(x.remove(y)))),
        ("sub", Box::new(|x, y| bits_of(x - y))),
        ("sub_assign", Box::new(|x, y| {
            let mut z = x;
            z -= y;
            bits_of(z)
        })),
        ("set1", Box::new(|x, y| bits_of(x.set(y, true)))),
        ("set0", Box::new(|x, y| bits_of(x.set(y, false)))),
        ("contains", Box::new(|x, y| x.contains(y) as u32)),
    ];
    for (name, f) in ops.iter() {
        res.insert(name.to_string(), json!(bs.iter().map(|b| f(ea, effects_from_bits(*b as u16))).collect::<Vec<_>>()));
    }
    // the provided Iterator methods must agree with next(): after k calls of next(), count() is what is left and size_hint()
    // brackets it
    let mut after = Vec::new();
    for k in 0..=2usize {
        let mut it = ea.iter();
        for _ in 0..k {
            let _ = it.next();
        }
        let (lo, hi) = it.size_hint();
        let mut it2 = ea.iter();
        for _ in 0..k {
            let _ = it2.next();
        }
        after.push(json!({"k":k,"lo":lo,"hi":hi.map(|h| h as i64).unwrap_or(999999),"count":it2.count(),"skip_count":ea.iter().skip(k).count()}));
    }
    json!({"k":"eff","a":a,"bs":bs,"res":res,"after":after,
           "iter":ea.iter().map(name_of).collect::<Vec<_>>(),"debug":debug_names(ea),
           "plain":ea.is_plain(),"clear":bits_of(ea.clear())})
}

pub fn record(seed: u64, thorough: bool, shards: usize, prefix: &str) -> Value {
    let mut files: Vec<_> = (0..shards).map(|k| crate::out_file(&format!("{prefix}-{k}.ndjson"))).collect();
    let mut n = 0usize;
    let mut pairs = 0u64;
    let mut r = Rng::new(seed);
    // structured family of b: all sets with <= 2 or >= 10 members
    let mut family: Vec<u32> = (0..4096u32).filter(|b| b.count_ones() <= 2 || b.count_ones() >= 10).collect();
    family.sort();
    for a in 0..4096u32 {
        let mut bs = family.clone();
        if thorough {
            // the full 4096 x 4096 in slices of 512
            for chunk in 0..8 {
                let bs: Vec<u32> = (chunk * 512..(chunk + 1) * 512).collect();
                pairs += bs.len() as u64;
                writeln!(files[n % shards], "{}", eff_event(a, &bs)).unwrap();
                n += 1;
            }
            continue;
        }
        for _ in 0..40 {
            bs.push((r.next() & 0xfff) as u32);
        }
        pairs += bs.len() as u64;
        writeln!(files[n % shards], "{}", eff_event(a, &bs)).unwrap();
        n += 1;
    }
    // style setters / getters / convenience methods / operators
    let convs: [(&str, fn(Style) -> Style); 10] = [
        ("BOLD", |s| s.bold()),
        ("DIMMED", |s| s.dimmed()),
        ("ITALIC", |s| s.italic()),
        ("UNDERLINE", |s| s.underline()),
        ("BLINK", |s| s.blink()),
        ("INVERT", |s| s.invert()),
        ("HIDDEN", |s| s.hidden()),
        ("STRIKETHROUGH", |s| s.strikethrough()),
        ("BOLD", |s| s.bold()),
        ("ITALIC", |s| s.italic()),
    ];
    for _ in 0..(if thorough { 20000 } else { 2000 }) {
        let s0 = gen_style(&mut r);
        let c = gen_color(&mut r);
        let e = (r.next() & 0xfff) as u32;
        let ee = effects_from_bits(e as u16);
        let evs = vec![
            json!({"k":"set","op":"fg","st0":style_json(&s0),"arg":col_json(c),"st1":style_json(&s0.fg_color(c)),"get":col_json(s0.fg_color(c).get_fg_color())}),
            json!({"k":"set","op":"bg","st0":style_json(&s0),"arg":col_json(c),"st1":style_json(&s0.bg_color(c)),"get":col_json(s0.bg_color(c).get_bg_color())}),
            json!({"k":"set","op":"ul","st0":style_json(&s0),"arg":col_json(c),"st1":style_json(&s0.underline_color(c)),"get":col_json(s0.underline_color(c).get_underline_color())}),
            json!({"k":"set","op":"effects","st0":style_json(&s0),"arg":e,"st1":style_json(&s0.effects(ee)),"get":bits_of(s0.effects(ee).get_effects())}),
            json!({"k":"set","op":"or","st0":style_json(&s0),"arg":e,"st1":style_json(&(s0 | ee)),"get":0}),
            json!({"k":"set","op":"sub","st0":style_json(&s0),"arg":e,"st1":style_json(&(s0 - ee)),"get":0}),
            // the assigning spellings are the same operations
            {
                let mut s1 = s0;
                s1 |= ee;
                json!({"k":"set","op":"or","spelling":"|=","st0":style_json(&s0),"arg":e,"st1":style_json(&s1),"get":0})
            },
            {
                let mut s1 = s0;
                s1 -= ee;
                json!({"k":"set","op":"sub","spelling":"-=","st0":style_json(&s0),"arg":e,"st1":style_json(&s1),"get":0})
            },
            {
                let (name, f) = convs[r.below(convs.len())];
                json!({"k":"set","op":"conv","st0":style_json(&s0),"arg":name,"st1":style_json(&f(s0)),"get":0})
            },
            json!({"k":"eq","st":style_json(&s0),"eff":e,"res":s0 == ee}),
            {
                // a colourless style against a proper subset / superset of its effects, and against the empty set
                let all = Style::new().effects(ee);
                let sub = effects_from_bits((e & (e >> 1)) as u16 & e as u16);
                json!({"k":"eq","st":style_json(&all),"eff":bits_of(sub),"res":all == sub})
            },
            {
                let all = Style::new().effects(ee);
                json!({"k":"eq","st":style_json(&all),"eff":0,"res":all == Effects::new()})
            },
            {
                let plain = Style::new().effects(ee);
                json!({"k":"eq","st":style_json(&plain),"eff":e,"res":plain == ee})
            },
            {
                let only_ul = Style::new().effects(ee).underline_color(c);
                json!({"k":"eq","st":style_json(&only_ul),"eff":e,"res":only_ul == ee})
            },
        ];
        for ev in evs {
            writeln!(files[n % shards], "{ev}").unwrap();
            n += 1;
        }
    }
    // colour constructors (.on / .on_default for the four colour types), Style::is_plain, From conversions
    {
        use anstyle::{AnsiColor, Color, RgbColor};
        let mut push = |ev: Value| {
            writeln!(files[n % shards], "{ev}").unwrap();
            n += 1;
        };
        for _ in 0..(if thorough { 6000 } else { 800 }) {
            let b = gen_color(&mut r);
            let bgc = b.unwrap_or(Color::Ansi(AnsiColor::Black));
            let a = ANSI[r.below(16)];
            let i = Ansi256Color(r.byte());
            let rgb = RgbColor(r.byte(), r.byte(), r.byte());
            let col = gen_color(&mut r).unwrap_or(Color::Rgb(rgb));
            push(json!({"k":"on","ty":"AnsiColor","c":col_json(Some(Color::Ansi(a))),"b":col_json(Some(bgc)),"on":style_json(&a.on(bgc)),"on_default":style_json(&a.on_default())}));
            push(json!({"k":"on","ty":"Ansi256Color","c":["idx", i.0],"b":col_json(Some(bgc)),"on":style_json(&i.on(bgc)),"on_default":style_json(&i.on_default())}));
            push(json!({"k":"on","ty":"RgbColor","c":["rgb", rgb.0, rgb.1, rgb.2],"b":col_json(Some(bgc)),"on":style_json(&rgb.on(bgc)),"on_default":style_json(&rgb.on_default())}));
            push(json!({"k":"on","ty":"Color","c":col_json(Some(col)),"b":col_json(Some(bgc)),"on":style_json(&col.on(bgc)),"on_default":style_json(&col.on_default())}));
            // typed backgrounds go through Into<Color>
            push(json!({"k":"on","ty":"Color.on(AnsiColor)","c":col_json(Some(col)),"b":["ansi", ansi_index(a)],"on":style_json(&col.on(a)),"on_default":style_json(&col.on_default())}));
            push(json!({"k":"on","ty":"Color.on(RgbColor)","c":col_json(Some(col)),"b":["rgb", rgb.0, rgb.1, rgb.2],"on":style_json(&col.on(rgb)),"on_default":style_json(&col.on_default())}));
            let s0 = if r.chance(1, 3) { Style::new() } else { gen_style(&mut r) };
            push(json!({"k":"plain","st":style_json(&s0),"res":s0.is_plain(),"new_is_plain":Style::new().is_plain() && Style::default().is_plain()}));
            let k = ansi_index(a);
            push(json!({"k":"from","which":"ansi->color","n":[k],"r":col_json(Some(Color::from(a)))}));
            push(json!({"k":"from","which":"idx->color","n":[i.0],"r":col_json(Some(Color::from(i)))}));
            push(json!({"k":"from","which":"u8->color","n":[i.0],"r":col_json(Some(Color::from(i.0)))}));
            push(json!({"k":"from","which":"rgb->color","n":[rgb.0, rgb.1, rgb.2],"r":col_json(Some(Color::from(rgb)))}));
            push(json!({"k":"from","which":"tuple->color","n":[rgb.0, rgb.1, rgb.2],"r":col_json(Some(Color::from((rgb.0, rgb.1, rgb.2))))}));
            push(json!({"k":"from","which":"ansi->idx","n":[k],"r":["idx", Ansi256Color::from(a).0]}));
            push(json!({"k":"from","which":"u8->idx","n":[i.0],"r":["idx", Ansi256Color::from(i.0).0]}));
            let t = RgbColor::from((rgb.0, rgb.1, rgb.2));
            push(json!({"k":"from","which":"tuple->rgb","n":[rgb.0, rgb.1, rgb.2],"r":["rgb", t.r(), t.g(), t.b()]}));
            let e = (r.next() & 0xfff) as u32;
            push(json!({"k":"from_eff","eff":e,"st":style_json(&Style::from(effects_from_bits(e as u16)))}));
        }
    }
    for (i, a) in ANSI.iter().enumerate() {
        let ev = json!({"k":"col","i":i,"from_ansi":Ansi256Color::from_ansi(*a).0,
            "into_ansi":Ansi256Color(i as u8).into_ansi().map(ansi_index).unwrap_or(16),
            "bright1":ansi_index(a.bright(true)),"bright0":ansi_index(a.bright(false)),"is_bright":a.is_bright()});
        writeln!(files[n % shards], "{ev}").unwrap();
        n += 1;
    }
    for i in 0..=255u8 {
        let ev = json!({"k":"idx","i":i,"into_ansi":Ansi256Color(i).into_ansi().map(ansi_index).unwrap_or(16),"index":Ansi256Color(i).index()});
        writeln!(files[n % shards], "{ev}").unwrap();
        n += 1;
    }
    for f in files.iter_mut() {
        f.flush().unwrap();
    }
    json!({"summary":{"events":n,"effect_pairs":pairs}})
}
