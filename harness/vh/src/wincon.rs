//! C07 / C03 (extractor) / C14 / C18 inputs: SGR-rich texts; WinconBytes recorder and replayer.
use crate::gen::{gen_char, gen_esc, gen_osc, gen_partition, push_char, Flavor};
use crate::rng::Rng;
use crate::style::style_json;
use anstream::adapter::WinconBytes;
use serde_json::{json, Value};
use std::io::Write;
use std::panic::{catch_unwind, AssertUnwindSafe};

const SINGLES: &[&str] = &[
    "0", "1", "2", "3", "4", "7", "8", "9", "21", "30", "31", "34", "37", "39", "40", "41", "47", "49", "90", "91", "97", "100", "104", "107",
    "", "00", "01", "004", "031", "5", "6", "22", "23", "24", "25", "27", "28", "29", "59", "10", "11", "26", "50", "51", "60", "73", "99", "108", "255",
];

/// one well-formed attribute group; returns (text, number of parameters)
pub fn gen_group(r: &mut Rng) -> (String, usize) {
    match r.below(12) {
        0 | 1 => {
            let t = *r.pick(&["38", "48", "58"]);
            let n = *r.pick(&[0usize, 1, 7, 8, 15, 16, 100, 200, 231, 232, 255]);
            let n = if r.chance(1, 3) { r.below(256) } else { n };
            if r.chance(1, 2) { (format!("{t};5;{n}"), 3) } else { (format!("{t}:5:{n}"), 1) }
        }
        2 | 3 => {
            let t = *r.pick(&["38", "48", "58"]);
            let (a, b, c) = (r.below(256), r.below(256), r.below(256));
            if r.chance(1, 2) { (format!("{t};2;{a};{b};{c}"), 5) } else { (format!("{t}:2:{a}:{b}:{c}"), 1) }
        }
        4 => (format!("4:{}", r.below(6)), 1),
        5 => {
            // leading zeros inside an extended colour
            let t = *r.pick(&["38", "48", "58"]);
            (format!("{t};05;0{}", r.below(100)), 3)
        }
        _ => ((*r.pick(SINGLES)).to_string(), 1),
    }
}

pub fn gen_sgr(r: &mut Rng, out: &mut Vec<u8>) {
    let want = *r.pick(&[1usize, 1, 1, 2, 2, 3, 4, 6, 12, 30]);
    let mut params = 0;
    let mut groups: Vec<String> = Vec::new();
    for _ in 0..want {
        let (g, n) = gen_group(r);
        if params + n > 32 {
            break;
        }
        params += n;
        groups.push(g);
    }
    if groups.len() == 1 && groups[0].is_empty() && r.chance(1, 2) {
        groups.clear();
    }
    out.extend_from_slice(b"\x1b[");
    out.extend_from_slice(groups.join(";").as_bytes());
    out.push(b'm');
}

/// a CSI that is NOT an SGR: other final byte, or final 'm' with a private marker / intermediate
fn gen_other_csi(r: &mut Rng, out: &mut Vec<u8>) {
    out.extend_from_slice(b"\x1b[");
    let marked = r.chance(1, 3);
    if marked && r.chance(1, 2) {
        out.push(*r.pick(b"<=>?"));
    }
    for i in 0..r.below(4) {
        if i > 0 {
            out.push(b';');
        }
        out.extend_from_slice(r.below(120).to_string().as_bytes());
    }
    let inter = marked && (out.len() == 2 || r.chance(1, 2));
    if inter || (marked && !out[2..].iter().any(|b| b"<=>?".contains(b))) {
        out.push(*r.pick(b" !\"$"));
    }
    if marked {
        out.push(b'm');
    } else {
        out.push(*r.pick(b"ABCDHJKSTfhlnrsu"));
    }
}

pub fn gen_styled_text(r: &mut Rng, target: usize, xmlish: bool) -> Vec<u8> {
    let mut out = Vec::new();
    while out.len() < target {
        match r.below(20) {
            0..=6 => {
                for _ in 0..r.range(1, 8) {
                    out.push(r.range(0x20, 0x7e) as u8);
                }
            }
            7 | 8 => {
                for _ in 0..r.range(1, 3) {
                    push_char(&mut out, gen_char(r));
                }
            }
            9 => out.push(*r.pick(&[b'\n', b'\t', b'\r', b'\n'])),
            10..=15 => gen_sgr(r, &mut out),
            16 => gen_other_csi(r, &mut out),
            17 => gen_osc(r, &mut out, Flavor::Utf8),
            18 => gen_esc(r, &mut out),
            _ => {
                if xmlish {
                    out.extend_from_slice(*r.pick(&[&b"<a&b>"[..], b"\"q\"", b"'", b"&amp;", b"]]>", b"\r\n", b"<!--"]));
                } else {
                    out.push(*r.pick(&[0u8, 7, 8, 0x7f, 0x18]));
                }
            }
        }
    }
    if std::str::from_utf8(&out).is_err() {
        out = String::from_utf8_lossy(&out).into_owned().into_bytes();
    }
    out
}

pub fn runs_json(runs: &[(anstyle::Style, String)]) -> Value {
    Value::Array(runs.iter().map(|(s, t)| json!([style_json(s), t.chars().map(|c| c as u32).collect::<Vec<_>>()])).collect())
}

/// mechanism B: one event per extract_next call
pub fn record(seed: u64, streams: u64, target: usize, path: &str) -> Value {
    let mut w = crate::out_file(path);
    let mut r = Rng::new(seed);
    let (mut calls, mut bytes) = (0u64, 0u64);
    for s in 0..streams {
        let input = if s % 5 == 4 { crate::gen::gen_stream(&mut r, target, Flavor::Full) } else { gen_styled_text(&mut r, target, false) };
        bytes += input.len() as u64;
        let style = *r.pick(&[0usize, 1, 2, 3, 5, 8, 17, 64]);
        let cuts = gen_partition(&mut r, input.len(), style);
        let mut x = WinconBytes::new();
        let mut pos = 0;
        let mut first = true;
        for c in cuts {
            let chunk = &input[pos..pos + c];
            pos += c;
            let res = catch_unwind(AssertUnwindSafe(|| x.extract_next(chunk).collect::<Vec<_>>()));
            calls += 1;
            let ev = match res {
                Ok(runs) => json!({"new":if first {1} else {0},"in":chunk,"runs":runs_json(&runs)}),
                Err(_) => json!({"new":if first {1} else {0},"in":chunk,"runs":[[{"fg":["panic"],"bg":["none"],"ul":["none"],"eff":[]},[0]]]}),
            };
            writeln!(w, "{ev}").unwrap();
            first = false;
        }
    }
    w.flush().unwrap();
    json!({"summary":{"calls":calls,"bytes":bytes,"streams":streams}})
}

/// mechanism A: {"i":[bytes],"allowed":[style..]|"any","text":[cps]}: the style tagged on the marker text
/// must be one of `allowed`; every chunking of short inputs must give the same merged runs
pub fn replay(path: &str, all_up_to: usize) -> Value {
    let (mut cases, mut bad, mut runs_total) = (0u64, 0u64, 0u64);
    for c in crate::read_lines(path) {
        cases += 1;
        let input = crate::bytes_of(&c["i"]);
        let text: String = c["text"].as_array().unwrap().iter().map(|x| char::from_u32(x.as_u64().unwrap() as u32).unwrap()).collect();
        let mut merged_one: Option<Vec<(anstyle::Style, String)>> = None;
        for cuts in crate::strip::chunkings(input.len(), all_up_to) {
            runs_total += 1;
            let res = catch_unwind(AssertUnwindSafe(|| {
                let mut x = WinconBytes::new();
                let mut pos = 0;
                let mut runs: Vec<(anstyle::Style, String)> = Vec::new();
                for n in &cuts {
                    for (s, t) in x.extract_next(&input[pos..pos + n]) {
                        match runs.last_mut() {
                            Some((ls, lt)) if *ls == s => lt.push_str(&t),
                            _ => runs.push((s, t)),
                        }
                    }
                    pos += n;
                }
                runs
            }));
            let problem = match &res {
                Err(_) => Some(json!("panic")),
                Ok(runs) => {
                    let got: String = runs.iter().map(|(_, t)| t.as_str()).collect();
                    if got != text {
                        Some(json!({"text":got.chars().map(|c| c as u32).collect::<Vec<_>>()}))
                    } else if c["allowed"] != json!("any") && !runs.is_empty() && {
                        let last = style_json(&runs.last().unwrap().0);
                        !c["allowed"].as_array().unwrap().contains(&last)
                    } {
                        Some(json!({"style":style_json(&runs.last().unwrap().0)}))
                    } else if merged_one.is_some() && merged_one.as_ref() != Some(runs) {
                        Some(json!({"chunked":runs_json(runs),"oneshot":runs_json(merged_one.as_ref().unwrap())}))
                    } else {
                        None
                    }
                }
            };
            if merged_one.is_none() {
                if let Ok(r) = &res {
                    merged_one = Some(r.clone());
                }
            }
            if let Some(p) = problem {
                bad += 1;
                if bad <= 40 {
                    println!("{}", json!({"mismatch":{"input":input,"chunks":cuts,"observed":p,"allowed":c["allowed"],"text":c["text"]}}));
                }
                break;
            }
        }
    }
    json!({"summary":{"cases":cases,"runs":runs_total,"mismatches":bad}})
}
