//! C07 / C03 (extractor) / C14 / C18 inputs: SGR-rich texts; WinconBytes recorder and replayer.
use crate::gen::{gen_partition, gen_styled_text, Flavor};
use crate::rng::Rng;
use crate::style::style_json;
use anstream::adapter::WinconBytes;
use serde_json::{json, Value};
use std::io::Write;
use std::panic::{catch_unwind, AssertUnwindSafe};

pub fn runs_json(runs: &[(anstyle::Style, String)]) -> Value {
    Value::Array(runs.iter().map(|(s, t)| json!([style_json(s), t.chars().map(|c| c as u32).collect::<Vec<_>>()])).collect())
}

/// mechanism B: one event per extract_next call
pub fn record(seed: u64, streams: u64, target: usize, path: &str) -> Value {
    let mut w = crate::out_file(path);
    let mut r = Rng::new(seed);
    let (mut calls, mut bytes) = (0u64, 0u64);
    for s in 0..streams {
        let mut input = if s % 5 == 4 { crate::gen::gen_stream(&mut r, target, Flavor::Full) } else { gen_styled_text(&mut r, target, false) };
        if s == 1 {
            // a hyperlink whose target is longer than 4 KiB (any amount of string payload is still payload), text on both sides
            let mut v = b"a\x1b[32m\x1b]8;;https://example.com/".to_vec();
            v.extend((0..5000).map(|i| b'a' + (i % 26) as u8));
            v.extend_from_slice(b"\x1b\\link\x1b]8;;\x1b\\ b\x1b[0m\n");
            v.extend_from_slice(&input);
            input = v;
        }
        bytes += input.len() as u64;
        let style = *r.pick(&[0usize, 1, 2, 3, 5, 8, 17, 64]);
        let cuts = gen_partition(&mut r, input.len(), style);
        let mut x = WinconBytes::new();
        let mut pos = 0;
        let mut first = true;
        for c in cuts {
            let chunk = &input[pos..pos + c];
            pos += c;
            // every third call goes to a CLONE of the extractor, which then takes its place: a copy made between two calls -
            // inside a sequence, inside a character - carries everything the original knew
            if calls % 3 == 2 {
                let y = x.clone();
                x = y;
            }
            let res = catch_unwind(AssertUnwindSafe(|| x.extract_next(chunk).collect::<Vec<_>>()));
            calls += 1;
            let ev = match res {
                Ok(runs) => json!({"new":if first {1} else {0},"in":chunk,"runs":runs_json(&runs)}),
                Err(_) => json!({"new":if first {1} else {0},"in":chunk,"runs":[[{"fg":["panic"],"bg":["none"],"ul":["none"],"eff":[]},[0]]]}),
            };
            writeln!(w, "{ev}").unwrap();
            first = false;
        }
    }
    w.flush().unwrap();
    json!({"summary":{"calls":calls,"bytes":bytes,"streams":streams}})
}

/// mechanism A: {"i":[bytes],"chars":[{"c":cp,"allowed":[style..]}..]}: the extractor must yield exactly these
/// characters, each tagged with one of its allowed styles; every chunking must give the same merged runs
pub fn replay(path: &str, all_up_to: usize) -> Value {
    let (mut cases, mut bad, mut runs_total) = (0u64, 0u64, 0u64);
    for c in crate::read_lines(path) {
        cases += 1;
        let input = crate::bytes_of(&c["i"]);
        let chars = c["chars"].as_array().unwrap();
        let mut merged_one: Option<Vec<(anstyle::Style, String)>> = None;
        for cuts in crate::strip::chunkings(input.len(), all_up_to) {
            runs_total += 1;
            let res = catch_unwind(AssertUnwindSafe(|| {
                let mut x = WinconBytes::new();
                let mut pos = 0;
                let mut runs: Vec<(anstyle::Style, String)> = Vec::new();
                for n in &cuts {
                    for (s, t) in x.extract_next(&input[pos..pos + n]) {
                        match runs.last_mut() {
                            Some((ls, lt)) if *ls == s => lt.push_str(&t),
                            _ => runs.push((s, t)),
                        }
                    }
                    pos += n;
                }
                runs
            }));
            let problem = match &res {
                Err(_) => Some(json!("panic")),
                Ok(runs) => {
                    let flat: Vec<(Value, u32)> = runs.iter().flat_map(|(s, t)| t.chars().map(move |ch| (style_json(s), ch as u32))).collect();
                    let mut p = None;
                    if flat.len() != chars.len() {
                        p = Some(json!({"text":flat.iter().map(|x| x.1).collect::<Vec<_>>()}));
                    } else {
                        for (k, (st, cp)) in flat.iter().enumerate() {
                            if chars[k]["c"].as_u64() != Some(*cp as u64) {
                                p = Some(json!({"text":flat.iter().map(|x| x.1).collect::<Vec<_>>()}));
                                break;
                            }
                            if !chars[k]["allowed"].as_array().unwrap().contains(st) {
                                p = Some(json!({"char_index":k,"style":st}));
                                break;
                            }
                        }
                    }
                    if p.is_none() && merged_one.is_some() && merged_one.as_ref() != Some(runs) {
                        p = Some(json!({"chunked":runs_json(runs),"oneshot":runs_json(merged_one.as_ref().unwrap())}));
                    }
                    p
                }
            };
            if merged_one.is_none() {
                if let Ok(r) = &res {
                    merged_one = Some(r.clone());
                }
            }
            if let Some(p) = problem {
                bad += 1;
                if bad <= 40 {
                    println!("{}", json!({"mismatch":{"input":input,"chunks":cuts,"observed":p,"chars":c["chars"]}}));
                }
                break;
            }
        }
    }
    json!({"summary":{"cases":cases,"runs":runs_total,"mismatches":bad}})
}
