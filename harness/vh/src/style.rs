//! C05: every rendering path of anstyle values, recorded for Trace_StyleRender.
use anstyle::{Ansi256Color, AnsiColor, Color, Effects, Reset, RgbColor, Style};
use serde_json::{json, Value};
use std::fmt::Write as _;
use std::io::Write as _;

pub const EFFECTS: [(&str, Effects); 12] = [
    ("BOLD", Effects::BOLD),
    ("DIMMED", Effects::DIMMED),
    ("ITALIC", Effects::ITALIC),
    ("UNDERLINE", Effects::UNDERLINE),
    ("DOUBLE_UNDERLINE", Effects::DOUBLE_UNDERLINE),
    ("CURLY_UNDERLINE", Effects::CURLY_UNDERLINE),
    ("DOTTED_UNDERLINE", Effects::DOTTED_UNDERLINE),
    ("DASHED_UNDERLINE", Effects::DASHED_UNDERLINE),
    ("BLINK", Effects::BLINK),
    ("INVERT", Effects::INVERT),
    ("HIDDEN", Effects::HIDDEN),
    ("STRIKETHROUGH", Effects::STRIKETHROUGH),
];

pub const ANSI: [AnsiColor; 16] = [
    AnsiColor::Black,
    AnsiColor::Red,
    AnsiColor::Green,
    AnsiColor::Yellow,
    AnsiColor::Blue,
    AnsiColor::Magenta,
    AnsiColor::Cyan,
    AnsiColor::White,
    AnsiColor::BrightBlack,
    AnsiColor::BrightRed,
    AnsiColor::BrightGreen,
    AnsiColor::BrightYellow,
    AnsiColor::BrightBlue,
    AnsiColor::BrightMagenta,
    AnsiColor::BrightCyan,
    AnsiColor::BrightWhite,
];

pub fn effects_from_bits(bits: u16) -> Effects {
    let mut e = Effects::new();
    for (k, (_, f)) in EFFECTS.iter().enumerate() {
        if bits & (1 << k) != 0 {
            e = e.insert(*f);
        }
    }
    e
}

pub fn eff_json(e: Effects) -> Value {
    Value::Array(EFFECTS.iter().filter(|(_, f)| e.contains(*f)).map(|(n, _)| json!(n)).collect())
}

pub fn ansi_index(a: AnsiColor) -> usize {
    ANSI.iter().position(|x| *x == a).unwrap()
}

pub fn col_json(c: Option<Color>) -> Value {
    match c {
        None => json!(["none"]),
        Some(Color::Ansi(a)) => json!(["ansi", ansi_index(a)]),
        Some(Color::Ansi256(a)) => json!(["idx", a.0]),
        Some(Color::Rgb(r)) => json!(["rgb", r.0, r.1, r.2]),
    }
}

pub fn style_json(s: &Style) -> Value {
    json!({"fg":col_json(s.get_fg_color()),"bg":col_json(s.get_bg_color()),"ul":col_json(s.get_underline_color()),"eff":eff_json(s.get_effects())})
}

fn distinct(v: Vec<Vec<u8>>) -> Vec<Vec<u8>> {
    let mut out: Vec<Vec<u8>> = Vec::new();
    for x in v {
        if !out.contains(&x) {
            out.push(x);
        }
    }
    out
}

macro_rules! grid {
    ($v:expr, $d:expr) => {{
        let d = $d;
        $v.push(format!("{}", d).into_bytes());
        $v.push(format!("{:>10}", d).into_bytes());
        $v.push(format!("{:<12}", d).into_bytes());
        $v.push(format!("{:^9}", d).into_bytes());
        $v.push(format!("{:*>40}", d).into_bytes());
        $v.push(format!("{:.2}", d).into_bytes());
        $v.push(format!("{:30.3}", d).into_bytes());
        $v.push(format!("{:08}", d).into_bytes());
        $v.push(format!("{:-^100.0}", d).into_bytes());
    }};
}
macro_rules! grid_alt {
    ($v:expr, $d:expr) => {{
        let d = $d;
        $v.push(format!("{:#}", d).into_bytes());
        $v.push(format!("{:>#10}", d).into_bytes());
        $v.push(format!("{:<#12}", d).into_bytes());
        $v.push(format!("{:^#9}", d).into_bytes());
        $v.push(format!("{:*>#40}", d).into_bytes());
        $v.push(format!("{:#.2}", d).into_bytes());
        $v.push(format!("{:#30.3}", d).into_bytes());
        $v.push(format!("{:#08}", d).into_bytes());
    }};
}

/// rendering under catch_unwind: a panic is recorded as the rendering "<panic>", which no specification accepts
pub fn style_event(s: Style, with_grid: bool) -> Value {
    match std::panic::catch_unwind(move || style_event_inner(s, with_grid)) {
        Ok(v) => v,
        Err(_) => json!({"k":"style","st":style_json(&s),"alt":[b"<panic>".to_vec()],"reset":[b"<panic>".to_vec()]}),
    }
}

fn style_event_inner(s: Style, with_grid: bool) -> Value {
    let mut alt: Vec<Vec<u8>> = Vec::new();
    let mut reset: Vec<Vec<u8>> = Vec::new();
    alt.push(format!("{}", s).into_bytes());
    alt.push(format!("{}", s.render()).into_bytes());
    let mut w = Vec::new();
    s.write_to(&mut w).unwrap();
    alt.push(w);
    // composed from the public parts (the underline colour has no public renderer of its own)
    if s.get_underline_color().is_none() {
        let mut c = String::new();
        write!(c, "{}", s.get_effects().render()).unwrap();
        if let Some(x) = s.get_fg_color() {
            write!(c, "{}", x.render_fg()).unwrap();
        }
        if let Some(x) = s.get_bg_color() {
            write!(c, "{}", x.render_bg()).unwrap();
        }
        alt.push(c.into_bytes());
    }
    // the io::Write path against writers that accept a few bytes per call and are interrupted in between
    for k in [1usize, 2, 3, 7] {
        let mut w = Chunky { max: k, calls: 0, out: Vec::new() };
        match s.write_to(&mut w) {
            Ok(()) => alt.push(w.out),
            Err(_) => alt.push(b"<write_to failed on a writer that makes progress>".to_vec()),
        }
    }
    {
        // a writer without room for the last byte: the error must surface
        let full = format!("{}", s).into_bytes();
        if !full.is_empty() {
            let mut buf = vec![0u8; full.len() - 1];
            let mut slice: &mut [u8] = &mut buf;
            if s.write_to(&mut slice).is_ok() {
                alt.push(b"<write_to reported success although the writer was full>".to_vec());
            }
        }
    }
    reset.push(format!("{:#}", s).into_bytes());
    reset.push(format!("{}", s.render_reset()).into_bytes());
    let mut w = Vec::new();
    s.write_reset_to(&mut w).unwrap();
    reset.push(w);
    // the adapters returned by render() / render_reset() are what they are under every flag, `#` included
    alt.push(format!("{:#}", s.render()).into_bytes());
    reset.push(format!("{:#}", s.render_reset()).into_bytes());
    if with_grid {
        grid!(alt, s);
        grid!(alt, s.render());
        grid_alt!(alt, s.render());
        grid_alt!(reset, s);
        grid!(reset, s.render_reset());
        grid_alt!(reset, s.render_reset());
    }
    json!({"k":"style","st":style_json(&s),"alt":distinct(alt),"reset":distinct(reset)})
}

/// accepts at most `max` bytes per call; every third call is interrupted
struct Chunky {
    max: usize,
    calls: usize,
    out: Vec<u8>,
}
impl std::io::Write for Chunky {
    fn write(&mut self, b: &[u8]) -> std::io::Result<usize> {
        self.calls += 1;
        if self.calls % 3 == 2 {
            return Err(std::io::ErrorKind::Interrupted.into());
        }
        let n = b.len().min(self.max);
        self.out.extend_from_slice(&b[..n]);
        Ok(n)
    }
    fn flush(&mut self) -> std::io::Result<()> {
        Ok(())
    }
}

pub fn color_event(c: Color, slot: &str, with_grid: bool) -> Value {
    let slot_owned = slot.to_string();
    match std::panic::catch_unwind(move || color_event_inner(c, &slot_owned, with_grid)) {
        Ok(v) => v,
        Err(_) => json!({"k":"color","slot":slot,"c":col_json(Some(c)),"alt":[b"<panic>".to_vec()]}),
    }
}

fn color_event_inner(c: Color, slot: &str, with_grid: bool) -> Value {
    let mut alt: Vec<Vec<u8>> = Vec::new();
    match slot {
        "fg" => {
            alt.push(format!("{}", c.render_fg()).into_bytes());
            if with_grid {
                grid!(alt, c.render_fg());
            }
        }
        "bg" => {
            alt.push(format!("{}", c.render_bg()).into_bytes());
            if with_grid {
                grid!(alt, c.render_bg());
            }
        }
        _ => {
            let s = Style::new().underline_color(Some(c));
            alt.push(format!("{}", s).into_bytes());
            if with_grid {
                grid!(alt, s.render());
            }
        }
    }
    // the specific colour types render like the enum
    match (c, slot) {
        (Color::Ansi(a), "fg") => alt.push(format!("{}", a.render_fg()).into_bytes()),
        (Color::Ansi(a), "bg") => alt.push(format!("{}", a.render_bg()).into_bytes()),
        (Color::Ansi256(a), "fg") => alt.push(format!("{}", a.render_fg()).into_bytes()),
        (Color::Ansi256(a), "bg") => alt.push(format!("{}", a.render_bg()).into_bytes()),
        (Color::Rgb(a), "fg") => alt.push(format!("{}", a.render_fg()).into_bytes()),
        (Color::Rgb(a), "bg") => alt.push(format!("{}", a.render_bg()).into_bytes()),
        _ => {}
    }
    json!({"k":"color","slot":slot,"c":col_json(Some(c)),"alt":distinct(alt)})
}

pub fn effects_event(e: Effects, with_grid: bool) -> Value {
    let mut alt: Vec<Vec<u8>> = Vec::new();
    alt.push(format!("{}", e.render()).into_bytes());
    let mut w = Vec::new();
    Style::new().effects(e).write_to(&mut w).unwrap();
    alt.push(w);
    if with_grid {
        grid!(alt, e.render());
    }
    json!({"k":"effects","eff":eff_json(e),"alt":distinct(alt)})
}

pub fn reset_event() -> Value {
    let mut alt: Vec<Vec<u8>> = Vec::new();
    grid!(alt, Reset);
    grid!(alt, Reset.render());
    grid_alt!(alt, Reset);
    json!({"k":"reset","alt":distinct(alt)})
}

pub fn gen_color(r: &mut crate::rng::Rng) -> Option<Color> {
    match r.below(5) {
        0 => None,
        1 => Some(Color::Ansi(ANSI[r.below(16)])),
        2 => Some(Color::Ansi256(Ansi256Color(r.byte()))),
        _ => Some(Color::Rgb(RgbColor(r.byte(), r.byte(), r.byte()))),
    }
}

pub fn gen_style(r: &mut crate::rng::Rng) -> Style {
    let e = if r.chance(1, 3) { effects_from_bits(1 << r.below(12)) } else { effects_from_bits((r.next() & 0xfff) as u16) };
    if r.chance(1, 4) {
        // the SAME colour value in two or three slots (slots are independent: none may be derived from another)
        let c = gen_color(r);
        let other = gen_color(r);
        return match r.below(4) {
            0 => Style::new().effects(e).fg_color(c).bg_color(other).underline_color(c),
            1 => Style::new().effects(e).fg_color(c).bg_color(c).underline_color(other),
            2 => Style::new().effects(e).fg_color(other).bg_color(c).underline_color(c),
            _ => Style::new().effects(e).fg_color(c).bg_color(c).underline_color(c),
        };
    }
    Style::new().effects(e).fg_color(gen_color(r)).bg_color(gen_color(r)).underline_color(gen_color(r))
}

/// record <seed> <thorough 0|1> <shards> <prefix>: writes prefix-<k>.ndjson
pub fn record(seed: u64, thorough: bool, shards: usize, prefix: &str) -> Value {
    let mut files: Vec<_> = (0..shards).map(|k| crate::out_file(&format!("{prefix}-{k}.ndjson"))).collect();
    let mut n = 0usize;
    let mut nontrivial = 0usize;
    let mut emit = |v: Value| {
        writeln!(files[n % shards], "{v}").unwrap();
        n += 1;
    };
    let mut r = crate::rng::Rng::new(seed);
    emit(reset_event());
    // FIRST USE on a fresh thread: a boundary colour rendered as the very first thing a thread does (per-thread caches start
    // empty, sentinels must not collide with real values) - before this thread has rendered anything else either
    for slot in 0..3 {
        for c in [Color::Rgb(RgbColor(0, 0, 0)), Color::Rgb(RgbColor(255, 255, 255)), Color::Ansi256(Ansi256Color(0)), Color::Ansi256(Ansi256Color(255)),
                  Color::Ansi(ANSI[0]), Color::Ansi(ANSI[15]), Color::Rgb(RgbColor(0, 0, 1))] {
            let ev = std::thread::spawn(move || {
                let st = match slot {
                    0 => Style::new().fg_color(Some(c)),
                    1 => Style::new().bg_color(Some(c)),
                    _ => Style::new().underline_color(Some(c)),
                };
                style_event(st, false)
            })
            .join()
            .unwrap();
            emit(ev);
            nontrivial += 1;
        }
    }
    // every grey r = g = b in every slot (a grey is an RGB colour like any other, also where it coincides with a palette entry)
    for slot in ["fg", "bg", "ul"] {
        for v in 0..=255u8 {
            emit(color_event(Color::Rgb(RgbColor(v, v, v)), slot, false));
            nontrivial += 1;
        }
    }
    // styles WITHOUT effects and every subset of the three colour slots, for a few colours of each kind (constructor-shaped
    // styles such as fg.on(bg) / fg.on_default() plus an underline colour)
    {
        let picks = [Color::Ansi(ANSI[1]), Color::Ansi(ANSI[12]), Color::Ansi256(Ansi256Color(9)), Color::Ansi256(Ansi256Color(200)), Color::Rgb(RgbColor(255, 128, 0)), Color::Rgb(RgbColor(100, 200, 255))];
        for mask in 1..8u8 {
            for (i, c) in picks.iter().enumerate() {
                let d = picks[(i + 2) % picks.len()];
                let e = picks[(i + 3) % picks.len()];
                let mut st = Style::new();
                if mask & 1 != 0 {
                    st = st.fg_color(Some(*c));
                }
                if mask & 2 != 0 {
                    st = st.bg_color(Some(d));
                }
                if mask & 4 != 0 {
                    st = st.underline_color(Some(e));
                }
                emit(style_event(st, false));
                nontrivial += 1;
            }
        }
    }
    // every pair of named colours in the foreground and background slots (anything shared between the two slots shows
    // only in pairs of different brightness)
    for f in ANSI {
        for b in ANSI {
            emit(style_event(Style::new().fg_color(Some(f.into())).bg_color(Some(b.into())), false));
            nontrivial += 1;
        }
    }
    // all 4096 effect sets: alone, and combined with a rotating colour assignment
    for bits in 0..4096u16 {
        let e = effects_from_bits(bits);
        emit(style_event(Style::new().effects(e), bits % 64 == 0));
        if thorough || bits % 4 == (seed % 4) as u16 {
            emit(effects_event(e, bits % 128 == 0));
            let s = Style::new().effects(e).fg_color(gen_color(&mut r)).bg_color(gen_color(&mut r)).underline_color(gen_color(&mut r));
            emit(style_event(s, false));
        }
        nontrivial += 1;
    }
    // every palette and indexed colour in every slot
    for slot in ["fg", "bg", "ul"] {
        for a in ANSI {
            emit(color_event(Color::Ansi(a), slot, true));
            let s = match slot {
                "fg" => Style::new().fg_color(Some(a.into())),
                "bg" => Style::new().bg_color(Some(a.into())),
                _ => Style::new().underline_color(Some(a.into())),
            };
            emit(style_event(s, true));
            nontrivial += 2;
        }
        for i in 0..=255u8 {
            emit(color_event(Color::Ansi256(Ansi256Color(i)), slot, i % 32 == 0));
            let c = Some(Color::Ansi256(Ansi256Color(i)));
            let s = match slot {
                "fg" => Style::new().fg_color(c),
                "bg" => Style::new().bg_color(c),
                _ => Style::new().underline_color(c),
            };
            emit(style_event(s, false));
            nontrivial += 2;
        }
        // every value of every RGB component (quick: boundary strata)
        let strata: Vec<u8> = if thorough { (0..=255).collect() } else { vec![0, 1, 9, 10, 11, 19, 20, 99, 100, 101, 109, 110, 199, 200, 201, 249, 250, 254, 255] };
        for comp in 0..3 {
            for v in &strata {
                let mut rgb = [r.byte(), r.byte(), r.byte()];
                rgb[comp] = *v;
                let c = Color::Rgb(RgbColor(rgb[0], rgb[1], rgb[2]));
                emit(color_event(c, slot, false));
                let s = match slot {
                    "fg" => Style::new().fg_color(Some(c)),
                    "bg" => Style::new().bg_color(Some(c)),
                    _ => Style::new().underline_color(Some(c)),
                };
                emit(style_event(s, *v == 100));
                nontrivial += 2;
            }
        }
    }
    for k in 0..(if thorough { 6000 } else { 600 }) {
        emit(style_event(gen_style(&mut r), k % 10 == 0));
        nontrivial += 1;
    }
    for f in files.iter_mut() {
        f.flush().unwrap();
    }
    json!({"summary":{"events":n,"nontrivial":nontrivial}})
}
