//! C01 / C03 / C04: every strip API against the requirement vectors computed by TLC (spec/Strip.tla).
use anstream::adapter::{strip_bytes, strip_str, StripBytes, StripStr};
use serde_json::{json, Value};
use std::io::Write;
use std::panic::{catch_unwind, AssertUnwindSafe};

/// pieces of one chunk as (offset, len) relative to the chunk, by pointer arithmetic
fn off(chunk: &[u8], piece: &[u8]) -> (i64, usize) {
    ((piece.as_ptr() as i64) - (chunk.as_ptr() as i64), piece.len())
}

pub type Pieces = Vec<(i64, usize)>;

/// all compositions of n into ordered positive parts (2^(n-1)), or a seeded subset when n is large
pub fn chunkings(n: usize, all_up_to: usize) -> Vec<Vec<usize>> {
    if n == 0 {
        return vec![vec![]];
    }
    let mut out = Vec::new();
    if n <= all_up_to {
        for mask in 0..(1u32 << (n - 1)) {
            let mut c = Vec::new();
            let mut cur = 1;
            for k in 0..(n - 1) {
                if mask & (1 << k) != 0 {
                    c.push(cur);
                    cur = 1;
                } else {
                    cur += 1;
                }
            }
            c.push(cur);
            out.push(c);
        }
    } else {
        out.push(vec![n]);
        out.push(vec![1; n]);
        out.push({
            let mut c = vec![2; n / 2];
            if n % 2 == 1 {
                c.push(1);
            }
            c
        });
        out.push({
            let mut c = vec![1];
            c.extend(vec![2; (n - 1) / 2]);
            if (n - 1) % 2 == 1 {
                c.push(1);
            }
            c
        });
    }
    out
}

/// chunkings restricted to character boundaries of a valid UTF-8 string (sizes in bytes)
pub fn char_chunkings(s: &str, all_up_to: usize) -> Vec<Vec<usize>> {
    let lens: Vec<usize> = s.chars().map(|c| c.len_utf8()).collect();
    chunkings(lens.len(), all_up_to)
        .into_iter()
        .map(|c| {
            let mut k = 0;
            c.iter()
                .map(|n| {
                    let b: usize = lens[k..k + n].iter().sum();
                    k += n;
                    b
                })
                .collect()
        })
        .collect()
}

pub enum Outcome {
    /// kept flag per input byte + geometry problems
    Kept(Vec<bool>, Option<String>),
    /// only output bytes known
    Bytes(Vec<u8>),
    Panic,
}

fn flags_from(n: usize, pieces: &[(usize, Pieces, usize)]) -> (Vec<bool>, Option<String>) {
    // pieces: (chunk start, pieces of the chunk, chunk len)
    let mut kept = vec![false; n];
    let mut geom = None;
    for (start, pcs, clen) in pieces {
        let mut prev_end: i64 = 0;
        for (o, l) in pcs {
            if *o < prev_end || *o < 0 || (*o as usize) + l > *clen || *l == 0 {
                geom = Some(format!("piece ({o},{l}) out of order/overlapping/outside chunk of len {clen} at {start}"));
                continue;
            }
            prev_end = *o + *l as i64;
            for k in 0..*l {
                kept[start + *o as usize + k] = true;
            }
        }
    }
    (kept, geom)
}

pub fn run_strip_bytes_oneshot(input: &[u8]) -> Outcome {
    match catch_unwind(AssertUnwindSafe(|| strip_bytes(input).map(|p| off(input, p)).collect::<Pieces>())) {
        Ok(p) => {
            let (k, g) = flags_from(input.len(), &[(0, p, input.len())]);
            Outcome::Kept(k, g)
        }
        Err(_) => Outcome::Panic,
    }
}

pub fn run_strip_bytes_chunked(input: &[u8], chunks: &[usize]) -> Outcome {
    match catch_unwind(AssertUnwindSafe(|| {
        let mut st = StripBytes::new();
        let mut all = Vec::new();
        let mut pos = 0;
        for c in chunks {
            let chunk = &input[pos..pos + c];
            let p: Pieces = st.strip_next(chunk).map(|p| off(chunk, p)).collect();
            all.push((pos, p, *c));
            pos += c;
        }
        all
    })) {
        Ok(all) => {
            let (k, g) = flags_from(input.len(), &all);
            Outcome::Kept(k, g)
        }
        Err(_) => Outcome::Panic,
    }
}

/// the non-contiguous protocol of `StrippedBytes`: drain the iterator, `extend` with the next slice
pub fn run_stripped_bytes_extend(input: &[u8], chunks: &[usize]) -> Outcome {
    match catch_unwind(AssertUnwindSafe(|| {
        let mut all = Vec::new();
        let mut pos = 0;
        let mut it = strip_bytes(&input[..0]);
        let mut protocol_ok = it.is_empty();
        for c in chunks {
            let chunk = &input[pos..pos + c];
            protocol_ok &= it.is_empty();
            it.extend(chunk);
            protocol_ok &= it.is_empty() == chunk.is_empty();
            let mut p: Pieces = Vec::new();
            for piece in it.by_ref() {
                p.push(off(chunk, piece));
            }
            protocol_ok &= it.is_empty();
            all.push((pos, p, *c));
            pos += c;
        }
        (all, protocol_ok)
    })) {
        Ok((all, ok)) => {
            let (k, g) = flags_from(input.len(), &all);
            Outcome::Kept(k, if ok { g } else { Some("StrippedBytes::is_empty does not follow the extend protocol".into()) })
        }
        Err(_) => Outcome::Panic,
    }
}

pub fn run_strip_str_oneshot(input: &str) -> Outcome {
    let b = input.as_bytes();
    match catch_unwind(AssertUnwindSafe(|| {
        let mut bad = None;
        let p: Pieces = strip_str(input)
            .map(|p| {
                if std::str::from_utf8(p.as_bytes()).is_err() {
                    bad = Some("piece is not valid UTF-8".to_string());
                }
                off(b, p.as_bytes())
            })
            .collect();
        (p, bad)
    })) {
        Ok((p, bad)) => {
            let (k, g) = flags_from(b.len(), &[(0, p, b.len())]);
            Outcome::Kept(k, bad.or(g))
        }
        Err(_) => Outcome::Panic,
    }
}

pub fn run_strip_str_chunked(input: &str, chunks: &[usize]) -> Outcome {
    let b = input.as_bytes();
    match catch_unwind(AssertUnwindSafe(|| {
        let mut st = StripStr::new();
        let mut all = Vec::new();
        let mut pos = 0;
        let mut bad = None;
        for c in chunks {
            let chunk = &input[pos..pos + c];
            let p: Pieces = st
                .strip_next(chunk)
                .map(|p| {
                    if std::str::from_utf8(p.as_bytes()).is_err() {
                        bad = Some("piece is not valid UTF-8".to_string());
                    }
                    off(chunk.as_bytes(), p.as_bytes())
                })
                .collect();
            all.push((pos, p, *c));
            pos += c;
        }
        (all, bad)
    })) {
        Ok((all, bad)) => {
            let (k, g) = flags_from(b.len(), &all);
            Outcome::Kept(k, bad.or(g))
        }
        Err(_) => Outcome::Panic,
    }
}

/// Display / to_string / into_vec forms: output bytes only
pub fn run_to_string(input: &str) -> Outcome {
    match catch_unwind(AssertUnwindSafe(|| {
        let a = strip_str(input).to_string();
        let b = format!("{}", strip_str(input));
        assert_eq!(a, b);
        // a partly consumed iterator renders the REST (Display does not exhaust it, and starts where the iterator stands - which
        // may be inside a sequence): pieces taken so far + rendering of the rest = the whole
        for k in 1..=3usize {
            let mut it = strip_str(input);
            let mut head = String::new();
            for _ in 0..k {
                match it.next() {
                    Some(p) => head.push_str(p),
                    None => break,
                }
            }
            let rest = it.to_string();
            assert_eq!(format!("{head}{rest}"), a, "pieces + rendering of the rest differ from the whole");
            assert_eq!(format!("{it}"), rest);
        }
        a.into_bytes()
    })) {
        Ok(v) => Outcome::Bytes(v),
        Err(_) => Outcome::Panic,
    }
}
pub fn run_into_vec(input: &[u8]) -> Outcome {
    match catch_unwind(AssertUnwindSafe(|| strip_bytes(input).into_vec())) {
        Ok(v) => Outcome::Bytes(v),
        Err(_) => Outcome::Panic,
    }
}

/// StripStream / AutoStream::never over Vec<u8>, write_all per chunk
pub fn run_stream(input: &[u8], chunks: &[usize], auto: bool) -> Outcome {
    match catch_unwind(AssertUnwindSafe(|| {
        let mut pos = 0;
        if auto {
            let mut s = anstream::AutoStream::never(Vec::new());
            for c in chunks {
                s.write_all(&input[pos..pos + c]).unwrap();
                pos += c;
            }
            s.into_inner()
        } else {
            let mut s = anstream::StripStream::new(Vec::new());
            for c in chunks {
                s.write_all(&input[pos..pos + c]).unwrap();
                pos += c;
            }
            s.into_inner()
        }
    })) {
        Ok(v) => Outcome::Bytes(v),
        Err(_) => Outcome::Panic,
    }
}

/// Explain output bytes as a selection of input positions allowed by the requirement vector.
/// Returns kept flags of an explanation using as few "F" positions as possible, or None.
pub fn explain(out: &[u8], input: &[u8], req: &[u8]) -> Option<Vec<bool>> {
    let n = input.len();
    let m = out.len();
    const INF: u32 = u32::MAX;
    // cost[i][j]: min F used explaining out[j..] with input[i..]
    let mut cost = vec![vec![INF; m + 1]; n + 1];
    cost[n][m] = 0;
    for i in (0..n).rev() {
        for j in (0..=m).rev() {
            let mut best = INF;
            let take = j < m && out[j] == input[i] && req[i] != b'D' && cost[i + 1][j + 1] != INF;
            let skip = req[i] != b'K' && cost[i + 1][j] != INF;
            if take {
                best = cost[i + 1][j + 1] + if req[i] == b'F' { 1 } else { 0 };
            }
            if skip && cost[i + 1][j] < best {
                best = cost[i + 1][j];
            }
            cost[i][j] = best;
        }
    }
    if cost[0][0] == INF {
        return None;
    }
    let mut kept = vec![false; n];
    let mut j = 0;
    for i in 0..n {
        let take = j < m && out[j] == input[i] && req[i] != b'D' && cost[i + 1][j + 1] != INF
            && cost[i + 1][j + 1] + if req[i] == b'F' { 1 } else { 0 } == cost[i][j];
        if take {
            kept[i] = true;
            j += 1;
        }
    }
    Some(kept)
}

#[derive(Default)]
pub struct Tally {
    pub cases: u64,
    pub runs: u64,
    pub nontrivial: u64,
    pub violations: u64,
    pub f3: u64,
    pub printed: u64,
    pub by: std::collections::BTreeMap<String, u64>,
}

fn report(t: &mut Tally, class: &str, input: &[u8], api: &str, chunks: &[usize], detail: Value) {
    let n = t.by.entry(format!("{class}/{api}")).or_insert(0);
    *n += 1;
    let first_of_kind = *n <= 3;
    if class == "F3" {
        t.f3 += 1;
        if t.f3 > 3 {
            return;
        }
    } else {
        t.violations += 1;
        t.printed += 1;
        if t.printed > 60 || !first_of_kind {
            return;
        }
    }
    println!("{}", json!({"mismatch":{"class":class,"input":input,"api":api,"chunks":chunks,"detail":detail}}));
}

/// judge one outcome against the requirement vector; `oneshot` = kept flags of the one-shot run (C03)
fn judge(t: &mut Tally, input: &[u8], req: &[u8], api: &str, chunks: &[usize], o: Outcome, oneshot: Option<&Vec<bool>>) -> Option<Vec<bool>> {
    t.runs += 1;
    let kept = match o {
        Outcome::Panic => {
            report(t, "panic", input, api, chunks, json!("panicked"));
            return None;
        }
        Outcome::Kept(k, geom) => {
            if let Some(g) = geom {
                report(t, "geometry", input, api, chunks, json!(g));
            }
            k
        }
        Outcome::Bytes(out) => match explain(&out, input, req) {
            Some(k) => k,
            None => {
                report(t, "output", input, api, chunks, json!({"output":out,"req":String::from_utf8_lossy(req)}));
                return None;
            }
        },
    };
    let mut used_f = false;
    for i in 0..input.len() {
        match (req[i], kept[i]) {
            (b'K', false) => {
                report(t, "lost", input, api, chunks, json!({"at":i,"kept":kept,"req":String::from_utf8_lossy(req)}));
                return Some(kept);
            }
            (b'D', true) => {
                report(t, "leak", input, api, chunks, json!({"at":i,"kept":kept,"req":String::from_utf8_lossy(req)}));
                return Some(kept);
            }
            (b'F', true) => used_f = true,
            _ => {}
        }
    }
    if used_f {
        report(t, "F3", input, api, chunks, json!({"kept":kept,"req":String::from_utf8_lossy(req)}));
    }
    if let Some(one) = oneshot {
        if *one != kept {
            report(t, "chunk-dependence", input, api, chunks, json!({"oneshot":one,"chunked":kept}));
        }
    }
    Some(kept)
}

pub fn check_case(t: &mut Tally, input: &[u8], req: &[u8], all_up_to: usize) {
    t.cases += 1;
    if req.iter().any(|c| *c != b'K') {
        t.nontrivial += 1;
    }
    let one = judge(t, input, req, "strip_bytes", &[], run_strip_bytes_oneshot(input), None);
    judge(t, input, req, "strip_bytes.into_vec", &[], run_into_vec(input), None);
    for c in chunkings(input.len(), all_up_to) {
        judge(t, input, req, "StripBytes::strip_next", &c, run_strip_bytes_chunked(input, &c), one.as_ref());
        judge(t, input, req, "StripStream::write_all", &c, run_stream(input, &c, false), one.as_ref());
        judge(t, input, req, "StrippedBytes::extend", &c, run_stripped_bytes_extend(input, &c), one.as_ref());
    }
    judge(t, input, req, "AutoStream::never.write_all", &[input.len()], run_stream(input, &[input.len()], true), one.as_ref());
    if let Ok(s) = std::str::from_utf8(input) {
        let ones = judge(t, input, req, "strip_str", &[], run_strip_str_oneshot(s), None);
        judge(t, input, req, "strip_str.to_string", &[], run_to_string(s), None);
        for c in char_chunkings(s, all_up_to) {
            judge(t, input, req, "StripStr::strip_next", &c, run_strip_str_chunked(s, &c), ones.as_ref());
        }
    }
}

// ---------------------------------------------------------------------------------------------
// recording (mechanism B)
// ---------------------------------------------------------------------------------------------
use std::cell::RefCell;
use std::rc::Rc;

/// inner writer that records where (relative to the caller's current buffer) each write came from
pub struct PtrLog {
    pub base: usize,
    pub len: usize,
    pub pieces: Vec<(i64, usize)>,
    pub data: Vec<u8>,
    pub cursor: usize,
}
pub struct PtrWriter(pub Rc<RefCell<PtrLog>>);
impl Write for PtrWriter {
    fn write(&mut self, buf: &[u8]) -> std::io::Result<usize> {
        let mut l = self.0.borrow_mut();
        let p = buf.as_ptr() as usize;
        let o = if p >= l.base && p + buf.len() <= l.base + l.len {
            (p - l.base) as i64
        } else {
            -1
        };
        l.pieces.push((o, buf.len()));
        l.data.extend_from_slice(buf);
        Ok(buf.len())
    }
    fn flush(&mut self) -> std::io::Result<()> {
        Ok(())
    }
}

/// when the inner writer was handed copies instead of sub-slices: attribute greedily (earliest match
/// after the previous piece)
fn attribute(chunk: &[u8], pieces: &mut [(i64, usize)], data: &[u8]) {
    let mut from = 0usize;
    let mut dpos = 0usize;
    for p in pieces.iter_mut() {
        let d = &data[dpos..dpos + p.1];
        dpos += p.1;
        if p.0 >= 0 {
            from = p.0 as usize + p.1;
            continue;
        }
        let mut found = None;
        if p.1 > 0 {
            for s in from..=chunk.len().saturating_sub(p.1) {
                if &chunk[s..s + p.1] == d {
                    found = Some(s);
                    break;
                }
            }
        }
        if let Some(s) = found {
            p.0 = s as i64;
            from = s + p.1;
        }
    }
}

pub fn record(seed: u64, streams: u64, target: usize, path: &str) -> Value {
    use crate::gen::{gen_partition, gen_stream, Flavor};
    let mut w = crate::out_file(path);
    let mut r = crate::rng::Rng::new(seed);
    let (mut calls, mut bytes) = (0u64, 0u64);
    for s in 0..streams {
        let api = ["bytes", "stream", "str", "bytes", "stream", "str"][(s % 6) as usize];
        let flavor = if api == "str" || r.chance(1, 4) { Flavor::Utf8 } else { Flavor::Full };
        let input = gen_stream(&mut r, target, flavor);
        let style = *r.pick(&[0usize, 1, 2, 3, 5, 8, 17, 64]);
        let mut cuts = gen_partition(&mut r, input.len(), style);
        if api == "str" {
            // move cuts to character boundaries
            let text = std::str::from_utf8(&input).unwrap();
            let mut pos = 0;
            let mut fixed = Vec::new();
            let mut start = 0;
            for c in &cuts {
                pos += c;
                let mut p = pos.min(input.len());
                while !text.is_char_boundary(p) {
                    p += 1;
                }
                if p > start {
                    fixed.push(p - start);
                    start = p;
                }
                pos = pos.max(p);
            }
            cuts = fixed;
        }
        bytes += input.len() as u64;
        let mut pos = 0;
        let mut first = true;
        let mut sb = StripBytes::new();
        let mut ss = StripStr::new();
        let log = Rc::new(RefCell::new(PtrLog { base: 0, len: 0, pieces: vec![], data: vec![], cursor: 0 }));
        let mut stream = anstream::StripStream::new(Box::new(PtrWriter(log.clone())) as Box<dyn Write>);
        for c in cuts {
            let chunk = &input[pos..pos + c];
            pos += c;
            let res = catch_unwind(AssertUnwindSafe(|| match api {
                "bytes" => sb.strip_next(chunk).map(|p| off(chunk, p)).collect::<Pieces>(),
                "str" => {
                    let t = std::str::from_utf8(chunk).unwrap();
                    ss.strip_next(t).map(|p| off(chunk, p.as_bytes())).collect::<Pieces>()
                }
                _ => {
                    {
                        let mut l = log.borrow_mut();
                        l.base = chunk.as_ptr() as usize;
                        l.len = chunk.len();
                        l.pieces.clear();
                        l.data.clear();
                    }
                    stream.write_all(chunk).unwrap();
                    let mut l = log.borrow_mut();
                    let data = std::mem::take(&mut l.data);
                    attribute(chunk, &mut l.pieces, &data);
                    l.pieces.iter().filter(|p| p.1 > 0).cloned().collect()
                }
            }));
            calls += 1;
            let ev = match res {
                Ok(p) => json!({"api":api,"new":if first {1} else {0},"in":chunk,"pcs":p.iter().map(|(o,l)| json!([o,l])).collect::<Vec<_>>()}),
                Err(_) => json!({"api":"panic","new":if first {1} else {0},"in":chunk,"pcs":[]}),
            };
            writeln!(w, "{ev}").unwrap();
            first = false;
        }
    }
    w.flush().unwrap();
    json!({"summary":{"calls":calls,"bytes":bytes,"streams":streams}})
}
