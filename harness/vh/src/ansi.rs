//! C17: anstyle_wincon::WinconStream::write_colored on non-console writers.
use crate::stream::{kind_of, Resp};
use crate::style::ANSI;
use anstyle_wincon::WinconStream;
use serde_json::{json, Value};
use std::cell::RefCell;
use std::collections::VecDeque;
use std::io::{self, Write};
use std::rc::Rc;

#[derive(Default)]
struct Log {
    script: VecDeque<Resp>,
    writes: Vec<(Vec<u8>, &'static str, usize)>,
    /// the call that offers exactly this (the data) accepts `pre` bytes - whichever inner write of the call that is: the
    /// script must not depend on how many inner writes the implementation makes for the codes
    data: Vec<u8>,
    pre: usize,
}
struct W(Rc<RefCell<Log>>);
impl Write for W {
    fn write(&mut self, buf: &[u8]) -> io::Result<usize> {
        let mut s = self.0.borrow_mut();
        let mut r = s.script.pop_front().unwrap_or(Resp::All);
        if !s.data.is_empty() && buf == &s.data[..] {
            // the data write: a scripted failure stands, otherwise it accepts the scripted whole-character prefix
            if matches!(r, Resp::All | Resp::Short(_)) {
                r = if s.pre < s.data.len() { Resp::Short(s.pre) } else { Resp::All };
            }
        }
        let (tag, k, res) = match r {
            Resp::All => ("ok", buf.len(), Ok(buf.len())),
            Resp::Short(k) => ("ok", k.min(buf.len()), Ok(k.min(buf.len()))),
            Resp::ErrI => ("eI", 0, Err(io::Error::new(io::ErrorKind::Interrupted, "scripted"))),
            Resp::ErrW => ("eW", 0, Err(io::Error::new(io::ErrorKind::WouldBlock, "scripted"))),
            Resp::ErrO => ("eO", 0, Err(io::Error::new(io::ErrorKind::Other, "scripted"))),
        };
        s.writes.push((buf.to_vec(), tag, k));
        res
    }
    fn flush(&mut self) -> io::Result<()> {
        Ok(())
    }
}

fn col(k: u64) -> Option<anstyle::AnsiColor> {
    if k == 16 { None } else { Some(ANSI[k as usize]) }
}

pub fn replay(path: &str, out: &str) -> Value {
    let mut w = crate::out_file(out);
    let (mut scripts, mut events) = (0u64, 0u64);
    let tmp = std::env::temp_dir().join(format!("vh-ansi-{}", std::process::id()));
    for c in crate::read_lines(path) {
        scripts += 1;
        let (fg, bg) = (c["fg"].as_u64().unwrap(), c["bg"].as_u64().unwrap());
        let data = crate::bytes_of(&c["data"]);
        let fail_at = c["failAt"].as_u64().unwrap() as usize;
        let pre = c["pre"].as_u64().unwrap() as usize;
        let short_at = c["shortAt"].as_u64().unwrap() as usize;
        let short_code = short_at != 0;
        let mut script = Vec::new();
        for k in 1..=6 {
            script.push(if k == fail_at {
                crate::stream::resp_of(&c["kind"])
            } else if k == short_at {
                Resp::Short(1)
            } else {
                Resp::All
            });
        }
        let log = Rc::new(RefCell::new(Log { script: script.into(), writes: vec![], data: data.clone(), pre }));
        let mut b: Box<dyn Write> = Box::new(W(log.clone()));
        let res = b.write_colored(col(fg), col(bg), &data);
        let inner: Vec<Value> = log.borrow().writes.iter().map(|(b, t, k)| json!([b, t, k])).collect();
        let ret = match &res {
            Ok(n) => json!(["ok", n]),
            Err(e) => json!([kind_of(e), 0]),
        };
        writeln!(w, "{}", json!({"fg":fg,"bg":bg,"data":data,"inner":inner,"ret":ret,"impl":"dyn","whole":false})).unwrap();
        events += 1;
        // a probe call on a reliable writer right after every scripted call, with ONE colour only: nothing of the previous call -
        // not even a failed one - may show in it (state carried across calls, per object, per thread or per process)
        {
            // (every third probe asks for no colour: then not a single code may appear, whatever happened before)
            let (pfg, pbg) = [(2u64, 16u64), (16u64, 3u64), (16u64, 16u64)][(scripts % 3) as usize];
            let log = Rc::new(RefCell::new(Log { script: VecDeque::new(), writes: vec![], data: b"p".to_vec(), pre: 1 }));
            let mut b: Box<dyn Write> = Box::new(W(log.clone()));
            let res = b.write_colored(col(pfg), col(pbg), b"p");
            let inner: Vec<Value> = log.borrow().writes.iter().map(|(b, t, k)| json!([b, t, k])).collect();
            let ret = match &res {
                Ok(n) => json!(["ok", n]),
                Err(e) => json!([kind_of(e), 0]),
            };
            writeln!(w, "{}", json!({"fg":pfg,"bg":pbg,"data":[112],"inner":inner,"ret":ret,"impl":"dyn (probe after the previous call)","whole":false})).unwrap();
            events += 1;
        }
        if fail_at == 0 && pre == data.len() && !short_code {
            // reliable writers: Vec<u8> and File implement the trait themselves
            let mut v: Vec<u8> = Vec::new();
            let r = v.write_colored(col(fg), col(bg), &data);
            let ret = match &r { Ok(n) => json!(["ok", n]), Err(e) => json!([kind_of(e), 0]) };
            writeln!(w, "{}", json!({"fg":fg,"bg":bg,"data":data,"inner":[[v, "ok", v.len()]],"ret":ret,"impl":"Vec","whole":true})).unwrap();
            events += 1;
            // a SECOND coloured write into the same Vec, with one colour or none: the writer only appends - what the first call
            // left (its reset included) stays, and the new frame is complete in itself
            {
                let first = v.clone();
                let (pfg, pbg) = [(2u64, 16u64), (16u64, 3u64), (16u64, 16u64), (5u64, 6u64)][(scripts % 4) as usize];
                let r = v.write_colored(col(pfg), col(pbg), b"cd");
                let ret = match &r { Ok(n) => json!(["ok", n]), Err(e) => json!([kind_of(e), 0]) };
                let added: Vec<u8> = if v.starts_with(&first) { v[first.len()..].to_vec() } else { v.clone() };
                writeln!(w, "{}", json!({"fg":pfg,"bg":pbg,"data":[99, 100],"inner":[[added, "ok", added.len()]],"ret":ret,"impl":"Vec (second frame in the same Vec)","whole":true})).unwrap();
                events += 1;
            }
            if scripts % 7 == 0 {
                let mut f = std::fs::File::create(&tmp).unwrap();
                let r = f.write_colored(col(fg), col(bg), &data);
                drop(f);
                let v = std::fs::read(&tmp).unwrap();
                let ret = match &r { Ok(n) => json!(["ok", n]), Err(e) => json!([kind_of(e), 0]) };
                writeln!(w, "{}", json!({"fg":fg,"bg":bg,"data":data,"inner":[[v, "ok", v.len()]],"ret":ret,"impl":"File","whole":true})).unwrap();
                events += 1;
            }
        }
    }
    // data larger than 64 KiB into writers that take a prefix only (a size limit applied to the data must not turn one short
    // write into several)
    for (fg, bg, take) in [(1u64, 16u64, 1000usize), (16, 4, 65536), (9, 2, 70000)] {
        let data: Vec<u8> = (0..66000usize).map(|i| b'a' + (i % 26) as u8).collect();
        let log = Rc::new(RefCell::new(Log { script: VecDeque::new(), writes: vec![], data: data.clone(), pre: take.min(data.len()) }));
        let mut b: Box<dyn Write> = Box::new(W(log.clone()));
        let res = b.write_colored(col(fg), col(bg), &data);
        let inner: Vec<Value> = log.borrow().writes.iter().map(|(b, t, k)| json!([b, t, k])).collect();
        let ret = match &res {
            Ok(n) => json!(["ok", n]),
            Err(e) => json!([kind_of(e), 0]),
        };
        writeln!(w, "{}", json!({"fg":fg,"bg":bg,"data":data,"inner":inner,"ret":ret,"impl":"dyn (64 KiB + data)","whole":false})).unwrap();
        events += 1;
    }
    events += concurrent_frames(&mut w);
    let _ = std::fs::remove_file(&tmp);
    w.flush().unwrap();
    json!({"summary":{"scripts":scripts,"events":events}})
}

/// One thread is INSIDE a frame (its writer blocks in the data write) while another thread makes a coloured write to a writer
/// of its own: that call must neither wait for the first (a watchdog turns waiting into the answer "hang") nor lose its frame.
fn concurrent_frames(w: &mut dyn Write) -> u64 {
    use std::sync::mpsc::{channel, Receiver, Sender};
    use std::time::Duration;
    struct Blocking {
        inside: Sender<()>,
        release: Receiver<()>,
        buf: Vec<u8>,
    }
    impl Write for Blocking {
        fn write(&mut self, b: &[u8]) -> io::Result<usize> {
            if b == b"held" {
                let _ = self.inside.send(());
                let _ = self.release.recv_timeout(Duration::from_secs(60));
            }
            self.buf.extend_from_slice(b);
            Ok(b.len())
        }
        fn flush(&mut self) -> io::Result<()> {
            Ok(())
        }
    }
    let (inside_tx, inside_rx) = channel();
    let (release_tx, release_rx) = channel();
    let a = std::thread::spawn(move || {
        let mut b: Box<dyn Write> = Box::new(Blocking { inside: inside_tx, release: release_rx, buf: Vec::new() });
        let r = b.write_colored(col(1), col(16), b"held");
        match r { Ok(n) => json!(["ok", n]), Err(e) => json!([kind_of(&e), 0]) }
    });
    let mut events = 0;
    if inside_rx.recv_timeout(Duration::from_secs(60)).is_ok() {
        let (done_tx, done_rx) = channel();
        let b = std::thread::spawn(move || {
            let mut v: Vec<u8> = Vec::new();
            let r = v.write_colored(col(2), col(4), b"free");
            let ret = match &r { Ok(n) => json!(["ok", n]), Err(e) => json!([kind_of(e), 0]) };
            let _ = done_tx.send((v, ret));
        });
        let ev = match done_rx.recv_timeout(Duration::from_secs(40)) {
            Ok((v, ret)) => json!({"fg":2,"bg":4,"data":[102, 114, 101, 101],"inner":[[v, "ok", v.len()]],"ret":ret,"impl":"Vec (another thread is inside a frame)","whole":true}),
            Err(_) => json!({"fg":2,"bg":4,"data":[102, 114, 101, 101],"inner":[],"ret":["hang", 0],"impl":"Vec (another thread is inside a frame)","whole":true}),
        };
        writeln!(w, "{ev}").unwrap();
        events += 1;
        let _ = release_tx.send(());
        let _ = b.join();
    } else {
        let _ = release_tx.send(());
    }
    let _ = a.join();
    events
}
