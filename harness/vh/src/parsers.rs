//! C11 (anstyle-git) and C12 (anstyle-ls): replay of TLC-enumerated inputs and recording of generated ones.
use crate::rng::Rng;
use crate::style::style_json;
use serde_json::{json, Value};
use std::io::Write;
use std::panic::{catch_unwind, AssertUnwindSafe};

fn cps(s: &str) -> Vec<u32> {
    s.chars().map(|c| c as u32).collect()
}
fn text_of(v: &Value) -> String {
    v.as_array().unwrap().iter().map(|x| char::from_u32(x.as_u64().unwrap() as u32).unwrap()).collect()
}

pub fn git_result(s: &str) -> Value {
    match catch_unwind(AssertUnwindSafe(|| anstyle_git::parse(s))) {
        Err(_) => json!(["panic"]),
        Ok(Ok(st)) => json!(["ok", style_json(&st)]),
        Ok(Err(e)) => {
            // the error names the offending word; Display is the stable public surface of the non-exhaustive enum
            let shown = e.to_string();
            let dbg = format!("{e:?}");
            let kind = if dbg.starts_with("ExtraColor") { "extra" } else if dbg.starts_with("UnknownWord") { "unknown" } else { "other" };
            let word = shown.rsplit_once(": \"").or_else(|| shown.rsplit_once("extra color \"")).map(|x| x.1.trim_end_matches('"').to_string());
            let word = match (kind, word) {
                ("extra", _) => shown.rsplit_once("extra color \"").map(|x| x.1.strip_suffix('"').unwrap_or(x.1).to_string()).unwrap_or_default(),
                (_, Some(w)) => w,
                _ => String::new(),
            };
            json!([kind, cps(&word)])
        }
    }
}

/// {"s":[cps],"r":expected}: compare (the underline colour must stay unset)
pub fn git_replay(path: &str) -> Value {
    let (mut cases, mut bad) = (0u64, 0u64);
    for c in crate::read_lines(path) {
        cases += 1;
        let s = text_of(&c["s"]);
        let got = git_result(&s);
        let exp = &c["r"];
        let same = if exp[0] == "ok" {
            got[0] == "ok" && got[1]["fg"] == exp[1]["fg"] && got[1]["bg"] == exp[1]["bg"] && got[1]["ul"] == json!(["none"]) && {
                let mut a: Vec<String> = got[1]["eff"].as_array().unwrap().iter().map(|x| x.to_string()).collect();
                let mut b: Vec<String> = exp[1]["eff"].as_array().unwrap().iter().map(|x| x.to_string()).collect();
                a.sort();
                b.sort();
                a == b
            }
        } else {
            got == *exp
        };
        if !same {
            bad += 1;
            if bad <= 40 {
                println!("{}", json!({"mismatch":{"s":c["s"],"text":s,"observed":got,"expected":exp}}));
            }
        }
    }
    json!({"summary":{"cases":cases,"mismatches":bad}})
}

const GIT_WORDS: &[&str] = &[
    "bold", "dim", "ul", "blink", "reverse", "italic", "strike", "nobold", "no-bold", "nodim", "no-dim", "noul", "no-ul", "noblink", "no-blink",
    "noreverse", "no-reverse", "noitalic", "no-italic", "nostrike", "no-strike", "normal", "-1", "black", "red", "green", "yellow", "blue",
    "magenta", "cyan", "white",
];
const GIT_WS: &[&str] = &[" ", " ", " ", "  ", "\t", "\n", "\r\n", "\u{a0}", "\u{2003}", "\u{3000}", "\u{b}", "\u{c}"];

fn git_word(r: &mut Rng) -> String {
    match r.below(16) {
        0..=6 => {
            let w = *r.pick(GIT_WORDS);
            // random letter case
            w.chars().map(|c| if r.chance(1, 3) { c.to_ascii_uppercase() } else { c }).collect()
        }
        7 => r.below(300).to_string(),
        8 => format!("{:0>width$}", r.below(300), width = r.range(1, 5)),
        9 => {
            let n = *r.pick(&[3usize, 6, 6, 3, 2, 4, 5, 7]);
            let mut s = String::from("#");
            for _ in 0..n {
                s.push(*r.pick(&['0', '9', 'a', 'F', 'c', 'B', '7', 'e']));
            }
            s
        }
        10 => {
            // near-miss hex
            let n = *r.pick(&[3usize, 6]);
            let mut s = String::from("#");
            for _ in 0..n {
                s.push(*r.pick(&['0', 'a', 'F', 'g', 'G', '+', '-', 'x', ' ', 'z']));
            }
            s.replace(' ', "_")
        }
        11 => (*r.pick(&["brightred", "BRIGHTBLUE", "brightnormal", "bright-1", "bright0", "bright255", "bright#fff", "bright", "brightbright", "brightblack",
        "no-rmal", "NO-Rmal", "no-normal", "nonormal", "no-no-bold", "nobright", "no-red", "no-", "no", "non", "no-b",
        "\u{130}talic", "d\u{130}m", "bl\u{130}nk", "STR\u{130}KE", "no-\u{130}talic", "wh\u{130}te", "\u{131}talic", "i\u{307}talic", "\u{17f}trike",
        "+5", "-0", "-2", "256", "1000", "0255", "0007", "00000000000000000012", "0256", "00", "007", "0x10", "1.0", "٣", "１", "+0", "-01", "99999999999999999999"])).to_string(),
        12 => {
            // single-edit mutation of a valid word
            let mut w: Vec<char> = r.pick(GIT_WORDS).chars().collect();
            let i = r.below(w.len());
            match r.below(3) {
                0 => {
                    w.remove(i);
                }
                1 => w.insert(i, *r.pick(&['x', '-', 'o', 'n', '_'])),
                _ => w[i] = *r.pick(&['x', 'e', '-', 'l']),
            }
            w.into_iter().collect()
        }
        13 => {
            let mut s = String::new();
            for _ in 0..r.range(1, 4) {
                s.push(crate::gen::gen_char(r));
            }
            if s.chars().any(|c| c.is_whitespace() || c == '\u{212a}') { "é".to_string() } else { s }
        }
        14 => (*r.pick(&["#é1", "#aé123", "#€", "#é€é", "#ééé", "#😀ab",
            // characters that BECOME hexadecimal digits or letters under bit tricks (| 0x20, & 0x5f, - b'0' without a range check)
            "#\u{10}23", "#1\u{19}3", "#12\u{11}456", "#\u{10}\u{10}\u{10}", "#@bc", "#`bc", "#12345:", "#/12", "#G12", "#g12", "#1\u{7f}2", "#\u{1}23"])).to_string(),
        _ => (*r.pick(&["brightred", "grey", "default", "none", "underline", "inverse", "no", "no-", "nono-bold", "bold,", "red;"])).to_string(),
    }
}


/// a neighbour of `s`: same length, same beginning, the last ASCII digit / letter changed - parsed right after `s` on the same
/// thread (a result remembered from the previous call must not be served for a different input)
fn neighbour(s: &str) -> Option<String> {
    let mut cs: Vec<char> = s.chars().collect();
    let i = cs.iter().rposition(|c| c.is_ascii_alphanumeric())?;
    cs[i] = match cs[i] {
        '0'..='8' => (cs[i] as u8 + 1) as char,
        '9' => '1',
        'a'..='y' | 'A'..='Y' => (cs[i] as u8 + 1) as char,
        _ => 'a',
    };
    Some(cs.into_iter().collect())
}

pub fn git_record(seed: u64, n: u64, path: &str) -> Value {
    let mut w = crate::out_file(path);
    let mut r = Rng::new(seed);
    let mut extra = 0u64;
    for _ in 0..n {
        let words = *r.pick(&[0usize, 1, 1, 2, 2, 3, 3, 4, 6, 10]);
        let mut s = String::new();
        if r.chance(1, 4) {
            s.push_str(*r.pick(GIT_WS));
        }
        for k in 0..words {
            if k > 0 {
                s.push_str(*r.pick(GIT_WS));
            }
            s.push_str(&git_word(&mut r));
        }
        if r.chance(1, 4) {
            s.push_str(*r.pick(GIT_WS));
        }
        writeln!(w, "{}", json!({"s":cps(&s),"r":git_result(&s)})).unwrap();
        extra += 1;
        if let Some(t) = neighbour(&s) {
            writeln!(w, "{}", json!({"s":cps(&t),"r":git_result(&t)})).unwrap();
            extra += 1;
        }
        // ... and the same description with the case of every ASCII letter flipped (what is remembered about one spelling -
        // an error names the word AS WRITTEN - is not the answer for another)
        if s.chars().any(|c| c.is_ascii_alphabetic()) {
            let t: String = s.chars().map(|c| if c.is_ascii_lowercase() { c.to_ascii_uppercase() } else { c.to_ascii_lowercase() }).collect();
            writeln!(w, "{}", json!({"s":cps(&t),"r":git_result(&t)})).unwrap();
            extra += 1;
        }
    }
    w.flush().unwrap();
    json!({"summary":{"events":extra}})
}

// ---------------------------------------------------------------------------------------------
// C12: anstyle-ls
// ---------------------------------------------------------------------------------------------
pub fn ls_result(s: &str) -> Value {
    match catch_unwind(AssertUnwindSafe(|| anstyle_ls::parse(s))) {
        Err(_) => json!(["panic"]),
        Ok(None) => {
            // "no style" and "rejected" are both None in the API; the statement distinguishes them by input
            if s.is_empty() || s == "0" || s == "00" { json!(["none"]) } else { json!(["reject"]) }
        }
        Ok(Some(st)) => json!(["ok", style_json(&st)]),
    }
}

pub fn ls_replay(path: &str) -> Value {
    let (mut cases, mut bad) = (0u64, 0u64);
    for c in crate::read_lines(path) {
        cases += 1;
        let s = text_of(&c["s"]);
        let got = ls_result(&s);
        let exp = &c["r"];
        let same = if exp[0] == "odd" {
            got[0] != "panic"
        } else if exp[0] == "ok" {
            got[0] == "ok" && got[1]["fg"] == exp[1]["fg"] && got[1]["bg"] == exp[1]["bg"] && got[1]["ul"] == exp[1]["ul"] && {
                let mut a: Vec<String> = got[1]["eff"].as_array().unwrap().iter().map(|x| x.to_string()).collect();
                let mut b: Vec<String> = exp[1]["eff"].as_array().unwrap().iter().map(|x| x.to_string()).collect();
                a.sort();
                b.sort();
                a == b
            }
        } else {
            got == *exp
        };
        if !same {
            bad += 1;
            if bad <= 40 {
                println!("{}", json!({"mismatch":{"s":c["s"],"text":s,"observed":got,"expected":exp}}));
            }
        }
    }
    json!({"summary":{"cases":cases,"mismatches":bad}})
}

pub fn ls_record(seed: u64, n: u64, path: &str) -> Value {
    let mut extra = 0u64;
    let mut w = crate::out_file(path);
    let mut r = Rng::new(seed);
    let interesting: &[u32] = &[0, 1, 2, 3, 4, 5, 6, 7, 8, 9, 21, 22, 23, 24, 25, 26, 27, 28, 29, 30, 31, 37, 38, 39, 40, 47, 48, 49, 58, 59, 90, 97, 100, 107, 255];
    // short descriptions with a multi-byte character at every position of a 2..6-byte text (byte lengths and byte offsets are
    // not character counts): never a panic, and never a style
    for t in ["\u{ff11};1", "\u{20ac};1", "1\u{e9};1", "0\u{e9}34", "\u{e9}", "1;\u{e9}", "01;3\u{ff14}", "\u{e9};34", "0\u{e9};4", "01\u{e9}4", "01;\u{e9}", "\u{1f600}1", "1\u{1f600}",
              "38;05;115", "48;002;1;2;3", "01;38;05;119;04", "38;5;0115", "38;2;001;002;0003", "01:34", "38:5:196", "01;31:04", "0:0"] {
        writeln!(w, "{}", json!({"s":cps(t),"r":ls_result(t)})).unwrap();
        extra += 1;
    }
    for _ in 0..n {
        let count = *r.pick(&[0usize, 1, 1, 2, 3, 4, 6, 10, 20, 40]);
        let mut fields: Vec<String> = Vec::new();
        while fields.len() < count {
            match r.below(14) {
                0 | 1 => {
                    let t = *r.pick(&[38u32, 48, 58]);
                    fields.push(t.to_string());
                    // the selector and the index are NUMBERS: leading zeros do not change them
                    fields.push(if r.chance(1, 4) { format!("{:0>width$}", 5, width = r.range(2, 4)) } else { "5".into() });
                    fields.push(if r.chance(1, 6) { format!("{:0>4}", r.below(256)) } else { r.below(256).to_string() });
                }
                2 | 3 => {
                    let t = *r.pick(&[38u32, 48, 58]);
                    fields.push(t.to_string());
                    fields.push(if r.chance(1, 4) { format!("{:0>width$}", 2, width = r.range(2, 4)) } else { "2".into() });
                    for _ in 0..3 {
                        fields.push(r.below(256).to_string());
                    }
                }
                4 => fields.push(format!("{:0>width$}", r.pick(interesting), width = r.range(1, 4))),
                5 => fields.push(r.below(256).to_string()),
                6 if r.chance(1, 3) => fields.push((*r.pick(&["", "+1", "-1", " 1", "1 ", "256", "300", "1.5", "a", "٣", "1e1", "0x1", "１", "+0", "0255", "65536", "65537", "4294967296", "4294967297", "4294967327",
                    "18446744073709551616", "18446744073709551617", "99999999999999999999999", "00000000000000000000000001", "000000000000000000000000256"])).to_string()),
                _ => fields.push(r.pick(interesting).to_string()),
            }
        }
        let mut s = fields.join(";");
        if r.chance(1, 20) {
            s.push(';');
        }
        if r.chance(1, 30) {
            s = s.replace(';', ":");
        }
        writeln!(w, "{}", json!({"s":cps(&s),"r":ls_result(&s)})).unwrap();
        extra += 1;
        if let Some(t) = neighbour(&s) {
            writeln!(w, "{}", json!({"s":cps(&t),"r":ls_result(&t)})).unwrap();
            extra += 1;
        }
    }
    w.flush().unwrap();
    json!({"summary":{"events":extra}})
}
